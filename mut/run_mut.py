#!/usr/bin/env python3
"""Systematic single-site mutation campaign against the monitors (development tool).

For every sampled mutation site of openacid/slim's hand-written sources:
  1. apply the mutant in a private scratch worktree (never in /repo), discard it if it does not compile
     or if the fast part of the repository's own suite already fails with it (such a change is not
     "realistic" in the sense of the task: it would not get past the existing tests);
  2. run the quick checks that own the mutated file, in order, until one reports a VIOLATION (exit 1);
  3. if none did, run the repository's own suite; a mutant the suite kills is only noted;
  4. if the suite passes too, run every remaining quick check; what is still silent is a SURVIVOR
     and is examined by hand (equivalent change, or a gap in the workload / oracle).
Results are appended to a TSV; finished (file, index) pairs are skipped on restart.

usage: run_mut.py --out results.tsv [--slots 3] [--workers 5] [--limit N] [--files a.go,b.go] [--seed 1]
Scratch space: /tmp/slimmut/<slot>/{repo,verif}; removed at the end.
"""
import argparse, os, random, shutil, subprocess, sys, threading, time, queue

ENV = dict(os.environ, GOFLAGS="-mod=mod", GOPROXY="off", GOSUMDB="off", GOTOOLCHAIN="local")
VERIF = os.path.dirname(os.path.dirname(os.path.abspath(__file__)))
SCR = "/tmp/slimmut"
ALL = ["C%02d" % i for i in range(1, 21)]

FILES = {
    # file: (sampling fraction, checks to try first, cheapest / most likely first)
    "trie/slimtrie.go": (1.0, ["C01", "C08", "C20", "C07", "C03", "C13"]),
    "trie/slimtrie_create.go": (1.0, ["C01", "C02", "C08", "C03", "C17", "C05", "C19", "C04"]),
    "trie/slimtrie_query.go": (1.0, ["C01", "C09", "C02", "C03", "C10", "C04", "C19", "C14"]),
    "trie/slimtrie_scan.go": (1.0, ["C04", "C11"]),
    "trie/slimtrie_marshal.go": (1.0, ["C06", "C07", "C05", "C20", "C18"]),
    "trie/slimtrie_getnode.go": (1.0, ["C01", "C18", "C03", "C04", "C19"]),
    "trie/slimtrie_getint.go": (1.0, ["C14"]),
    "trie/slimtrie_vlen_array.go": (1.0, ["C01", "C04", "C10", "C05"]),
    "trie/slimtrie_vars.go": (1.0, ["C01", "C05"]),
    "trie/slimtrie_level.go": (1.0, ["C18", "C05"]),
    "trie/slimtrie_stat.go": (1.0, ["C18", "C05"]),
    "trie/slimtrie_str.go": (1.0, ["C19"]),
    "trie/bitmap.go": (1.0, ["C01"]),
    "trie/strcmp.go": (1.0, ["C03", "C10"]),
    "array/array.go": (1.0, ["C16", "C06"]),
    "array/base.go": (1.0, ["C16", "C06"]),
    "array/int.go": (0.2, ["C16", "C06"]),
    "encode/encoder.go": (1.0, ["C15", "C01"]),
    "encode/int.go": (0.3, ["C15", "C14"]),
    "encode/int8.go": (1.0, ["C15", "C14"]),
    "encode/nativeint.go": (1.0, ["C15"]),
    "encode/dummy.go": (1.0, ["C15", "C01"]),
    "encode/type_encoder.go": (1.0, ["C15", "C01"]),
    "index/index.go": (1.0, ["C12", "C02"]),
}


def sh(cmd, cwd=None, timeout=None, env=None):
    try:
        p = subprocess.run(cmd, shell=True, cwd=cwd, env=env or ENV, stdout=subprocess.PIPE, stderr=subprocess.STDOUT, timeout=timeout)
        return p.returncode, p.stdout.decode("utf-8", "replace")
    except subprocess.TimeoutExpired as e:
        return 124, (e.stdout or b"").decode("utf-8", "replace")


def setup_slot(k):
    d = f"{SCR}/{k}"
    sh(f"git -C /repo worktree remove --force {d}/repo")
    shutil.rmtree(d, ignore_errors=True)
    os.makedirs(d)
    rc, out = sh(f"git -C /repo worktree add -q --detach {d}/repo HEAD")
    assert rc == 0, out
    rc, out = sh(f"rsync -a --exclude .git --exclude .build --exclude .work --exclude evidence --exclude replays --exclude seeded --exclude notes --exclude mut {VERIF}/ {d}/verif/")
    assert rc == 0, out
    return d


def run_check(slot, cid, workers):
    env = dict(ENV, VP_RUN_REPO=f"{slot}/repo", VERIF_WORKERS=str(workers), VERIF_SEED="1")
    # processes are in one group so that a timeout takes the workers down too
    rc, out = sh(f"timeout -k 5 -s KILL 900 setsid -w {slot}/verif/bin/check {cid} quick", env=env, timeout=960)
    fps = sorted({w.split("=", 1)[1] for l in out.splitlines() if l.startswith("VIOLATION") or "fingerprint=" in l for w in l.split() if w.startswith("fingerprint=")})
    if rc == 1 and "VIOLATION" in out:
        return "killed", ",".join(fps[:3])
    if rc in (124, 137):
        sh(f"pkill -KILL -f {slot}/verif/.build/slimverif")
        return "hang", ""
    if rc == 2:
        last = [l for l in out.splitlines() if l.startswith("INCONCLUSIVE")]
        return "inconclusive", (last[0][:120] if last else "")
    if rc == 0:
        return "silent", ""
    return "error", out[-200:].replace("\n", " ")


def work(k, q, args, lock):
    slot = setup_slot(k)
    while True:
        try:
            f, idx, line, op, desc = q.get_nowait()
        except queue.Empty:
            break
        t0 = time.time()
        repo = f"{slot}/repo"
        sh("git checkout -q -- . && git clean -fdq", cwd=repo)
        rc, out = sh(f"/tmp/mutgen apply {repo}/{f} {idx} > {slot}/mutant.go && cp {slot}/mutant.go {repo}/{f}")
        result, detail, tried = "", "", []
        if rc != 0:
            result = "genfail"
        else:
            rc, out = sh("go build ./... ", cwd=repo, timeout=300)
            if rc != 0:
                result = "nocompile"
        if not result:
            # cheap pre-filter: the repository's suite without its four slowest tests (1 core, ~15 s)
            rc, out = sh("go test -vet=off -count=1 -timeout 10m -skip '^(TestSlimTrie_Iter_large|TestSlimTrie_Marshal_allkeys|TestSlimTrie_Unmarshal_old_data|TestSlimTrie_Complete_GRS_9_allkeyset)$' ./...", cwd=repo, timeout=700)
            if rc != 0:
                result = "suite-fast"
                fails = [l for l in out.splitlines() if l.startswith("--- FAIL") or l.startswith("panic:")]
                detail = "; ".join(fails[:2])[:160]
        first = FILES[f][1]
        if not result:
            for cid in first:
                r, d = run_check(slot, cid, args.workers)
                tried.append(f"{cid}:{r}")
                if r in ("killed", "hang"):
                    result, detail = f"{r}:{cid}", d
                    break
        if not result:
            rc, out = sh("go test -vet=off -count=1 -timeout 20m ./...", cwd=repo, timeout=1300)
            if rc != 0:
                result = "suite-only"
                fails = [l for l in out.splitlines() if l.startswith("--- FAIL") or l.startswith("FAIL") or l.startswith("panic:")]
                detail = "; ".join(fails[:3])[:200]
            elif args.no_late:
                result = "SURVIVOR(targeted)"
            else:
                for cid in ALL:
                    if cid in first:
                        continue
                    r, d = run_check(slot, cid, args.workers)
                    tried.append(f"{cid}:{r}")
                    if r in ("killed", "hang"):
                        result, detail = f"late-{r}:{cid}", d
                        break
                if not result:
                    result = "SURVIVOR"
        sh("git checkout -q -- . && git clean -fdq", cwd=repo)
        with lock:
            with open(args.out, "a") as o:
                o.write("\t".join([f, str(idx), str(line), op, desc, result, detail, " ".join(tried), "%.0f" % (time.time() - t0)]) + "\n")
        print(f"[{k}] {f}#{idx} L{line} {op} {desc} => {result} {detail} ({time.time()-t0:.0f}s)", flush=True)
    sh(f"git -C /repo worktree remove --force {slot}/repo")
    shutil.rmtree(slot, ignore_errors=True)


def main():
    ap = argparse.ArgumentParser()
    ap.add_argument("--out", required=True)
    ap.add_argument("--slots", type=int, default=3)
    ap.add_argument("--workers", type=int, default=5)
    ap.add_argument("--limit", type=int, default=10**9)
    ap.add_argument("--files", default="")
    ap.add_argument("--seed", type=int, default=1)
    ap.add_argument("--no-late", action="store_true", help="do not run the non-targeted checks on mutants that survive the targeted ones and the suite")
    args = ap.parse_args()
    rc, out = sh("go build -o /tmp/mutgen .", cwd=f"{VERIF}/mut/mutgen")
    assert rc == 0, out
    done = set()
    if os.path.exists(args.out):
        for l in open(args.out):
            p = l.rstrip("\n").split("\t")
            if len(p) > 1 and not l.startswith("#"):
                done.add((p[0], p[1]))
    else:
        open(args.out, "w").write("# file\tsite\tline\toperator\tdescription\tresult\tdetail\tchecks tried\tseconds\n")
    rnd = random.Random(args.seed)
    todo = []
    files = [x for x in args.files.split(",") if x] or list(FILES)
    for f in files:
        rc, out = sh(f"/tmp/mutgen list /repo/{f}")
        for l in out.splitlines():
            idx, line, op, desc = l.split("\t")
            if rnd.random() <= FILES[f][0] and (f, idx) not in done:
                todo.append((f, int(idx), int(line), op, desc))
    rnd.shuffle(todo)
    todo = todo[: args.limit]
    print(f"{len(todo)} mutants to run, {len(done)} already done", flush=True)
    q = queue.Queue()
    for t in todo:
        q.put(t)
    lock = threading.Lock()
    ths = [threading.Thread(target=work, args=(k, q, args, lock)) for k in range(args.slots)]
    for t in ths:
        t.start()
    for t in ths:
        t.join()
    print("done")


if __name__ == "__main__":
    main()
