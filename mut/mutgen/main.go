// mutgen: a small AST mutation generator used to test the monitors in /verif
// against systematic single-site changes of openacid/slim (development tool,
// not a registered check).
//
//	mutgen list  <file.go>          one line per mutation site: index, line, operator, description
//	mutgen apply <file.go> <index>  the mutated file on stdout
package main

import (
	"bytes"
	"fmt"
	"go/ast"
	"go/format"
	"go/parser"
	"go/token"
	"os"
	"strconv"
)

type site struct {
	line  int
	op    string
	desc  string
	apply func()
}

var swaps = map[token.Token][]token.Token{
	token.LSS: {token.LEQ}, token.LEQ: {token.LSS}, token.GTR: {token.GEQ}, token.GEQ: {token.GTR},
	token.EQL: {token.NEQ}, token.NEQ: {token.EQL},
	token.LAND: {token.LOR}, token.LOR: {token.LAND},
	token.ADD: {token.SUB}, token.SUB: {token.ADD},
	token.SHL: {token.SHR}, token.SHR: {token.SHL},
	token.AND: {token.OR}, token.OR: {token.AND},
	token.MUL: {token.QUO}, token.REM: {token.QUO},
}

func collect(fset *token.FileSet, f *ast.File) []site {
	var sites []site
	line := func(p token.Pos) int { return fset.Position(p).Line }
	var inFunc string
	ast.Inspect(f, func(n ast.Node) bool {
		switch x := n.(type) {
		case *ast.FuncDecl:
			inFunc = x.Name.Name
		case *ast.GenDecl:
			if x.Tok == token.IMPORT {
				return false
			}
		case *ast.BinaryExpr:
			for _, to := range swaps[x.Op] {
				x, from, to := x, x.Op, to
				sites = append(sites, site{line(x.OpPos), "binop", fmt.Sprintf("%s: %s -> %s", inFunc, from, to), func() { x.Op = to }})
			}
		case *ast.BasicLit:
			if x.Kind == token.INT {
				v, err := strconv.ParseInt(x.Value, 0, 64)
				if err == nil {
					x, old := x, x.Value
					sites = append(sites, site{line(x.Pos()), "lit+1", fmt.Sprintf("%s: %s -> %d", inFunc, old, v+1), func() { x.Value = strconv.FormatInt(v+1, 10) }})
					if v > 0 {
						sites = append(sites, site{line(x.Pos()), "lit-1", fmt.Sprintf("%s: %s -> %d", inFunc, old, v-1), func() { x.Value = strconv.FormatInt(v-1, 10) }})
					}
				}
			}
		case *ast.IncDecStmt:
			sites = append(sites, site{line(x.Pos()), "incdec", inFunc + ": ++ <-> --", func() {
				if x.Tok == token.INC {
					x.Tok = token.DEC
				} else {
					x.Tok = token.INC
				}
			}})
		case *ast.IfStmt:
			sites = append(sites, site{line(x.Pos()), "ifneg", inFunc + ": if cond negated", func() {
				x.Cond = &ast.UnaryExpr{Op: token.NOT, X: &ast.ParenExpr{X: x.Cond}}
			}})
			if x.Else == nil {
				sites = append(sites, site{line(x.Pos()), "ifdrop", inFunc + ": if body never taken", func() {
					x.Cond = &ast.BinaryExpr{X: &ast.ParenExpr{X: x.Cond}, Op: token.LAND, Y: ast.NewIdent("false")}
				}})
			}
		case *ast.BlockStmt:
			for i, s := range x.List {
				i, s, x := i, s, x
				switch st := s.(type) {
				case *ast.AssignStmt:
					if st.Tok != token.DEFINE {
						sites = append(sites, site{line(s.Pos()), "delassign", inFunc + ": assignment removed", func() { x.List[i] = &ast.EmptyStmt{} }})
					}
				case *ast.ExprStmt:
					sites = append(sites, site{line(s.Pos()), "delcall", inFunc + ": call statement removed", func() { x.List[i] = &ast.EmptyStmt{} }})
				case *ast.BranchStmt:
					if st.Tok == token.BREAK && st.Label == nil {
						sites = append(sites, site{line(s.Pos()), "brk2cont", inFunc + ": break -> continue", func() { st.Tok = token.CONTINUE }})
					} else if st.Tok == token.CONTINUE && st.Label == nil {
						sites = append(sites, site{line(s.Pos()), "cont2brk", inFunc + ": continue -> break", func() { st.Tok = token.BREAK }})
					}
				}
			}
		case *ast.AssignStmt:
			switch x.Tok {
			case token.ADD_ASSIGN:
				sites = append(sites, site{line(x.Pos()), "opassign", inFunc + ": += -> -=", func() { x.Tok = token.SUB_ASSIGN }})
			case token.SUB_ASSIGN:
				sites = append(sites, site{line(x.Pos()), "opassign", inFunc + ": -= -> +=", func() { x.Tok = token.ADD_ASSIGN }})
			case token.OR_ASSIGN:
				sites = append(sites, site{line(x.Pos()), "opassign", inFunc + ": |= -> &=", func() { x.Tok = token.AND_ASSIGN }})
			case token.SHL_ASSIGN:
				sites = append(sites, site{line(x.Pos()), "opassign", inFunc + ": <<= -> >>=", func() { x.Tok = token.SHR_ASSIGN }})
			case token.SHR_ASSIGN:
				sites = append(sites, site{line(x.Pos()), "opassign", inFunc + ": >>= -> <<=", func() { x.Tok = token.SHL_ASSIGN }})
			}
		}
		return true
	})
	return sites
}

func main() {
	if len(os.Args) < 3 {
		fmt.Fprintln(os.Stderr, "usage: mutgen list|apply file [index]")
		os.Exit(2)
	}
	fset := token.NewFileSet()
	f, err := parser.ParseFile(fset, os.Args[2], nil, parser.ParseComments)
	if err != nil {
		fmt.Fprintln(os.Stderr, err)
		os.Exit(2)
	}
	sites := collect(fset, f)
	switch os.Args[1] {
	case "list":
		for i, s := range sites {
			fmt.Printf("%d\t%d\t%s\t%s\n", i, s.line, s.op, s.desc)
		}
	case "apply":
		i, _ := strconv.Atoi(os.Args[3])
		if i < 0 || i >= len(sites) {
			os.Exit(2)
		}
		sites[i].apply()
		var buf bytes.Buffer
		if err := format.Node(&buf, fset, f); err != nil {
			fmt.Fprintln(os.Stderr, err)
			os.Exit(2)
		}
		os.Stdout.Write(buf.Bytes())
	}
}
