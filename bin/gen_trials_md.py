#!/usr/bin/env python3
"""Rewrites the trial tables in DESIGN.md (between the TRIALS markers) from seeded/TRIALS.tsv.
Rounds are separated in the TSV by lines starting with '# ---- '."""
import re
rounds, cur = [["first round", []]], None
for l in open('/verif/seeded/TRIALS.tsv'):
    if l.startswith('# ---- '):
        rounds.append([l[7:].strip(), []]); continue
    if l.startswith('#') or not l.strip(): continue
    rounds[-1][1].append(l.rstrip('\n').split('\t'))
def table(rows):
    out = ["| change | reported by | oracle clauses that fired | history |", "|---|---|---|---|"]
    for a in rows:
        out.append("| %s | %s | %s | %s |" % (a[0], a[2], a[3], a[4]))
    return "\n".join(out)
body, summary = "", []
for name, rows in rounds:
    n = len([r for r in rows if r[0][0] == 'C'])
    missed = len([r for r in rows if r[0][0] == 'C' and r[4].startswith('MISSED')])
    summary.append((name, n, missed))
    title = name.split('(')[0].strip().capitalize()
    extra = name[name.index('('):] if '(' in name else ''
    body += "**%s** - %d changes, %d missed by the owning check at first %s\n\n%s\n\n" % (title, n, missed, extra, table(rows))
s = open('/verif/DESIGN.md').read()
s = re.sub(r'<!-- TRIALS-BEGIN -->.*<!-- TRIALS-END -->', lambda m: '<!-- TRIALS-BEGIN -->\n' + body + '<!-- TRIALS-END -->', s, flags=re.S)
open('/verif/DESIGN.md', 'w').write(s)
print(summary)
