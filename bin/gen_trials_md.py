#!/usr/bin/env python3
"""Rewrites the trial tables in DESIGN.md (between the TRIALS markers) from seeded/TRIALS.tsv."""
import re
rows1, rows2, cur = [], [], None
for l in open('/verif/seeded/TRIALS.tsv'):
    if l.startswith('# ---- second round'):
        cur = rows2; continue
    if l.startswith('#') or not l.strip():
        if cur is None: cur = rows1
        continue
    a = l.rstrip('\n').split('\t')
    (cur if cur is not None else rows1).append(a)
def table(rows):
    out = ["| change | reported by | oracle clauses that fired | history |", "|---|---|---|---|"]
    for a in rows:
        out.append("| %s | %s | %s | %s |" % (a[0], a[2], a[3], a[4]))
    return "\n".join(out)
def stats(rows):
    n = len([r for r in rows if r[0][0] == 'C'])
    missed = len([r for r in rows if r[0][0] == 'C' and r[4].startswith('MISSED')])
    return n, missed
n1, m1 = stats(rows1); n2, m2 = stats(rows2)
body = ("**First round** (%d changes, %d missed by the owning check at first):\n\n" % (n1, m1) + table(rows1) +
        "\n\n**Second round** (%d changes, %d missed by the owning check at first; the agents were shown the list of ideas already used and asked for different mechanisms):\n\n" % (n2, m2) + table(rows2) + "\n")
s = open('/verif/DESIGN.md').read()
s = re.sub(r'<!-- TRIALS-BEGIN -->.*<!-- TRIALS-END -->', '<!-- TRIALS-BEGIN -->\n' + body.replace('\\', '\\\\') + '<!-- TRIALS-END -->', s, flags=re.S)
open('/verif/DESIGN.md', 'w').write(s)
print("round1", n1, m1, "round2", n2, m2)
