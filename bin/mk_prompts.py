#!/usr/bin/env python3
"""Development helper for the break-it rounds (DESIGN.md section 9.5): writes one prompt per property for a
fresh sub-agent. A prompt contains only the text of the property (from properties.jsonl), the titles of the
seeded changes already kept for it (so that the agent looks for a different mechanism) and the procedure -
nothing else from /verif.

usage: bin/mk_prompts.py <root> <rot> [ID ...]     e.g. bin/mk_prompts.py /tmp/w7 1 C04 C06
   writes <root>_prompts/<ID>.txt; the agent's scratch worktree is <root>_<ID>; <rot> rotates the assigned
   mechanism kinds so that successive rounds give a property different kinds.
"""
import glob, json, os, sys

V = os.path.dirname(os.path.dirname(os.path.abspath(__file__)))
root, rot = sys.argv[1], int(sys.argv[2])
ids = sys.argv[3:]
props = {}
for l in open(f"{V}/properties.jsonl"):
    p = json.loads(l)
    props[p["id"]] = p
titles = {}
for d in sorted(glob.glob(f"{V}/seeded/C*-*")):
    m = json.load(open(d + "/meta.json"))
    titles.setdefault(os.path.basename(d)[:3], []).append(m.get("title", ""))

CATS = [
    "an ERROR PATH or partial-failure path: behaviour after a call that returned an error or panicked and was recovered (a rejected build, a refused load, a refused scan, an encoder that fails), or cleanup that is skipped on an early return",
    "a SPECIAL PATH FOR LARGE OR UNUSUAL SIZES that small inputs never take: a threshold (count of keys/values/nodes/levels, byte length of a key or of the stream, number of distinct bitmaps), chunking, a fixed-size table or buffer, a fast path for tiny inputs (0, 1 or 2 keys)",
    "an ARITHMETIC BOUNDARY: exact multiples of 64 or of a word/byte/nibble size, the first or last element of a bitmap word, an int32/int16/uint8 width, a shift by the full word width, signed vs unsigned comparison, an empty trailing element",
    "the VALUE ENCODER contract: user-defined encoders (zero-length encodings, variable size, encoders whose GetEncodedSize needs the bytes, encoders that return or retain their argument), defined (named) types, struct values, nil values, values equal under == but not byte-equal or vice versa",
    "OPTION HANDLING: one of the 81 nil/false/true spellings of the four option pointers, options of the receiver vs options the data was built with, Complete vs InnerPrefix+LeafPrefix, DedupValue interplay with prefixes",
    "the SHAPE OF THE TRIE: a specific mixture of 257-bit nodes, 17-bit nodes and table-compressed short nodes, single-label nodes created by de-duplication, the end-of-key label, inner-and-leaf positions, a node placement relative to a bitmap word boundary, keys that are prefixes of other keys with 0x00/0xff continuations",
    "TWO COOPERATING EDITS in different functions or files that each look correct (or are even improvements) alone and only break the property together",
    "a HISTORY ON ONE OBJECT OR SEVERAL LIVE OBJECTS that is NOT a memo/cache/pool of the kinds already used: e.g. state derived at init that is not re-derived on one of the entry points (Unmarshal vs proto.Unmarshal vs Reset vs Init), by-value copies, iterators that outlive a reload, an object that is reused after a failure",
    "the DEPENDENCY BOUNDARY: how slim calls into its low-level helpers (bit-string compare, rank/select indexes, bitmap-tree path encoding, varint/size arithmetic, protobuf helpers) - a misuse of a helper's contract (units: bits vs nibbles vs bytes; inclusive vs exclusive ends; index granularity) that is right for the common alignment and wrong for a rare one",
    "PLATFORM/RUNTIME DETAIL: behaviour that depends on GOMAXPROCS, on map iteration order, on goroutine scheduling, on slice capacity vs length, on append aliasing, on integer conversion of negative numbers, or on what the garbage collector does to an unsafe pointer",
]

T = '''You are helping test a verification effort for the Go library openacid/slim (a static succinct trie index, SlimTrie). Your job is to act as an adversarial-but-realistic developer: produce TWO different source changes to the library, each of which BREAKS the property given below, while the library still compiles and its whole existing test suite still passes. You work ONLY inside your private scratch git worktree {WT} (a checkout of the library). Do not read or touch /verif or /repo or any other /tmp/w* directory; everything you need is in {WT}.

Every shell call needs: export GOFLAGS=-mod=mod GOPROXY=off GOSUMDB=off GOTOOLCHAIN=local   (no network; nothing can be downloaded). The suite is: cd {WT} && go test -vet=off -count=1 -timeout 25m ./...   (about 100-120 s on an idle machine, several minutes when the machine is busy - it is; the trie package dominates). Cap memory of test runs with `ulimit -v 8000000` in the same shell.

THE PROPERTY ({ID}: {TITLE})
Statement: {STATEMENT}
Quantified over: {QUANT}
Why the existing tests cannot settle it: {WHY}
Where it lives: files {FILES}; mechanisms: {MECH}

WHAT I WANT FROM EACH OF THE TWO CHANGES
- It looks like something a maintainer could plausibly write (an optimisation, a refactoring, a "simplification", an off-by-one in a rarely taken branch, a compatibility shortcut, a hardening check that is too eager...), is small-to-moderate, compiles, and `go test -vet=off -count=1 ./...` still passes UNEDITED (do not edit, delete or add test files as part of the change; testdata must stay untouched).
- It really breaks the property as stated (a user relying on the statement would be bitten), not some neighbouring behaviour.
- It needs SOMETHING SPECIFIC to manifest: a particular interleaving of goroutines, a fault/cut at a particular point, a multi-step sequence of operations or several live objects, an unusual input shape/size/byte pattern, a particular option combination or value encoder, data written by an older version, or two cooperating edits in different places that each look fine alone. Ordinary use (a few ASCII keys, default options, build then Get) must NOT expose it at once.
- The two changes must use different mechanisms from each other AND from these ideas, which have all been used already (do not repeat them or close variants):
{USED}
  Ideas used for other properties already, also off-limits as the core mechanism: last-decoded-leaf memo in the SlimTrie; shared empty Slim message; pooled creator/builder buffers; UTF-8 rune iteration over key bytes; fixed-size detection of leaf values by total size; rank one bit past a bitmap at a word boundary; label 0xff wrapping at 257-bit nodes; String() memoisation; caller buffer kept by Unmarshal; Marshal output from pooled buffer; rank-index kind changed without a version bump; encoder cache keyed by type only; shared boolean constants written through; package-level scratch session; goroutine-sharded work above a size threshold.
- Prefer mechanisms in different files / layers (builder vs query vs scan vs loader vs low-level array/encoder).

THIS TIME THE MECHANISMS ARE ASSIGNED (to spread the changes over kinds of mistakes):
- change A must hinge on {CA}.
- change B must hinge on {CB}.
If an assigned kind truly cannot break this property, say so in your report and pick the nearest kind that can; do not fall back to caches, memos, pools or lazily initialised state - those have been used many times.

DELIVERABLES (for X in A, B) under {WT}/out/X/ :
- patch.diff  : `git diff` of the change against HEAD, containing ONLY the library change (no demo, no out/ directory). It must apply with `git apply` on a clean checkout of HEAD.
- demo_test.go : a Go test file (package trie / array / encode / index as appropriate, or the _test external package) with test function(s) named TestDemo{ID}X_... that FAIL with the change applied and PASS on the clean checkout. It is copied into the package directory for running and is NOT part of the patch. Keep it self-contained and fast (<60 s). (If a test file is impossible, a tiny main package under out/X/demo/ with its own go.mod using `replace github.com/openacid/slim => {WT}` that exits non-zero on failure is acceptable.)
- meta.json : {{"property":"{ID}","title":"<one line>","files":[...],"what":"<what the change does and why it breaks the property>","needs":"<what exactly is needed for it to manifest and why ordinary use does not show it>","demo_dir":"<package dir, e.g. trie/>","demo_cmd":"<exact command that runs the demo from {WT}>","suite_passes":true,"verified":"<what you ran and saw>"}}

PROCEDURE YOU MUST FOLLOW FOR EACH CHANGE: start from a clean tree (git checkout -- . && git clean -fdq -e out), make the change, `go build ./...`, run the FULL suite and confirm it passes, copy demo into the package and confirm it FAILS, save `git diff -- . ':!out'` (excluding the demo file) as patch.diff, then `git checkout -- .`, remove the copied demo, re-copy it and confirm it PASSES on the clean tree, remove it again. Leave the worktree clean at the end except for out/. If an idea turns out to be caught by the existing suite, pick another idea; do not weaken the suite. Do not spend effort on more than two changes. Finish with a short report: for each of A and B one paragraph (mechanism, what it needs to manifest), and the exact commands you verified.'''

os.makedirs(f"{root}_prompts", exist_ok=True)
order = list(props)
for id in ids or order:
    p = props[id]
    n = order.index(id) + rot
    a = p["anchors"]
    mech = "; ".join(f"{m['name']} ({m['where']})" for m in a.get("mechanism", []))
    used = "\n".join("   * " + t for t in titles.get(id, []))
    ca = CATS[n % len(CATS)]
    cb = CATS[(n * 3 + 5) % len(CATS)]
    if ca == cb:
        cb = CATS[(n + 4) % len(CATS)]
    s = T.format(WT=f"{root}_{id}", ID=id, TITLE=p["title"], STATEMENT=p["statement"], QUANT=p["quantifier"]["text"],
                 WHY=p["why_tests_cant"], FILES=", ".join(a["files"]), MECH=mech, USED=used, CA=ca, CB=cb)
    open(f"{root}_prompts/{id}.txt", "w").write(s)
    print(id, "A:", ca[:40], "| B:", cb[:40])
