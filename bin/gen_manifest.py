#!/usr/bin/env python3
"""Regenerates /verif/MANIFEST.json from the table below (kept next to the
checks so that the manifest never drifts from what bin/check can run)."""
import json, sys

CHECKS = {
 "C01": dict(tech="runtime monitor: reference-map oracle on every Get/GetID of retained keys (generated + small-scope exhaustive workloads, 16 option sets, fresh/loaded)",
             text="Every retained key of every generated and every small-universe key set was looked up through Get/GetID on fresh, Unmarshal-loaded and proto-loaded instances under all 16 option sets and compared with an executable reference map; held on the executions observed, which are gated on having crossed the representation boundaries (257-bit/17-bit/short nodes, straddling short nodes, steps >=256 half-bytes, var-len and empty leaves, de-duplicated keys).",
             ref="3 C01"),
 "C02": dict(tech="runtime monitor: reference-map oracle on RangeGet of every input key (run-length value workloads), also through index.SlimIndex",
             text="RangeGet was observed for every input key (retained or de-duplicated away) of run-length value lists under all 16 option sets and compared with the supplied value; dropped keys are classified by their relation to the range start and all classes must be seen.",
             ref="3 C02"),
 "C03": dict(tech="runtime monitor: exact ordered-map model compared on Get/GetID/RangeGet/Search for the query set Q(K); exhaustive over small universes",
             text="On every option set that stores complete keys, four lookup APIs are compared component by component with a sorted-list model for keys, prefixes, 00/ff extensions, bit and byte mutations, out-of-range, empty, random and long queries; exhaustively for all key sets of size <=4 (thorough <=5) over a nibble-diverse universe with every universe string as query.",
             ref="3 C03"),
 "C04": dict(tech="runtime monitor: sequence oracle over ScanFrom/ScanFromTo/NewIter executions + refusal observer",
             text="Every sequence delivered by the three scan entry points (both inclusivities, with/without values, stop points, end bounds, calls after exhaustion) is compared with the model's retained suffix on fresh and loaded complete tries, for fixed- and variable-width encoders; on tries that do not store complete keys each entry point must panic before yielding.",
             ref="3 C04"),
 "C09": dict(tech="runtime monitor: neighbour oracle on Search of every retained key, 16 option sets, fresh/loaded",
             text="Search(k) was observed for every retained key in every option set and compared with (previous retained value | nil, own value, next retained value | nil).",
             ref="3 C09"),
 "C10": dict(tech="runtime monitor: totality/provenance/cross-API consistency assertions on every lookup of hostile query sets; watchdog for non-termination; guard-page sanitizer behind the query string (mmap/mprotect, every fourth query repeated from the last bytes of a readable page); race-build pass adds checkptr",
             text="Get, GetID, RangeGet and Search are called inside recover() with hostile queries (long, all-00/ff, step prefixes, mutations) on tries of all modes, with and without values, empty and single-key, fresh and loaded; any panic, any value not supplied at build time and any disagreement between the APIs is a violation; a lookup that makes no progress for 120 s is reported as non-termination.",
             ref="3 C10"),
 "C13": dict(tech="runtime monitor: metamorphic oracle across the 16 option sets built from the same entries",
             text="For every query, found(more stored information) implies found(less) with the same value within equal DedupValue; Complete finds exactly the retained keys; option spellings that normalise equally answer identically.",
             ref="3 C13"),
 "C14": dict(tech="runtime monitor: differential oracle GetI8/16/32/64 vs Get on full-range integer values; first typed reads of a fresh instance made by 8 goroutines at once",
             text="Typed getters are compared with Get (found flag and number) for every query of Q(K) on tries with min/max/-1/0/random values of each width, all option sets, de-duplicated and loaded tries.",
             ref="3 C14"),
 "C05": dict(tech="runtime monitors: byte-equality of repeated builds/marshals; battery-digest equality fresh vs loaded; sequential state-machine oracle over all Unmarshal/proto.Unmarshal/Reset histories of length <=3; proto.Size == len(Marshal) on every loaded state; by-value copies of loaded instances compared after their source loaded other data",
             text="Marshal output of five independent builds, of Marshal twice, of proto.Marshal and the advertised size are compared byte for byte; a loaded instance must give the same battery digest (lookups incl. false positives, scans or their refusal, Stat, String, re-Marshal) as the fresh one; every history of length <=3 over 17 operations on 8 pooled streams (incl. legacy, truncated, incompatible) is executed on one instance and compared with a brand-new instance given only the final state.",
             ref="3 C05"),
 "C06": dict(tech="runtime monitor: reference-map oracle over streams synthesised by validated legacy writer models (12 layouts) + the 97 archived fixtures; differential vs the source trie; streams of 118k keys / more than 1 MiB of key text / label bitmaps searched to end on a word boundary",
             text="Streams in every historical layout are produced for arbitrary generated key sets by writer models (re-validated against the 97 fixtures on each run), loaded, and checked against the reference model on every indexed key (Get, RangeGet, Search, KeyCnt), with the exact-map battery and scans for allpref streams, and query-by-query against the fresh trie a 0.5.10 stream was derived from.",
             ref="3 C06 and 2.5", note=" The legacy writers are models of historical code that is not in the repository; they reproduce all 97 archived fixtures."),
 "C07": dict(level="fault_enumeration", tech="fault enumeration at run time: every cut point of valid streams of every layout + a version-string list (incl. numerically aliasing versions), observed through Unmarshal's result and an empty-behaviour battery; guard-paged read-only input buffers and short views of longer buffers; a load that never returns is a violation",
             text="For each valid stream every strict prefix (every byte offset for streams <=64 KiB) is handed to Unmarshal on an instance that holds other data: it must return an error without panicking and afterwards answer as an empty trie; every incompatible/malformed version string must be rejected with ErrIncompatible. Exhaustive over the cut points of the streams generated in the run.",
             ref="3 C07"),
 "C08": dict(tech="runtime monitor: error-identity oracle on injected order violations + C01 oracle on every accepted build of a run-length sweep across the step-width boundary; accepted slices edited in place and resubmitted; every accepted valid list verified key by key with every value kind",
             text="Order violations injected at every position of short lists (seeded positions of long ones) must be rejected with ErrKeyOutOfOrder and a nil trie; valid lists within limits must be accepted; for single-branch runs of every swept length 0..70000 half-bytes (thorough 262145) at four placements and 16 option sets the build either errors with a nil trie or yields a trie (fresh and loaded) that finds every key.",
             ref="3 C08"),
 "C11": dict(tech="Go race detector over a stress workload of 2..32 reader goroutines on one shared instance + solo-vs-concurrent result equality + iterator interleaving oracle; overlap matrix from unsynchronised monotonic timestamps; background churn of unrelated builds/loads in the same process",
             text="All read APIs are driven concurrently from a barrier against one shared fresh/loaded/legacy-loaded instance under -race with randomized yielding and GOMAXPROCS 1/2/16; zero race reports with slim/low/protobuf frames, every result equal to its solo result, independent iterators yield their own sequences; evidence carries the API-pair overlap matrix and in-flight histogram actually observed.",
             ref="3 C11", note=" The race detector sees only races whose two accesses both execute in the run."),
 "C12": dict(tech="runtime monitor: exact-map oracle through a key-verifying DataReader (dense Get / sparse RangeGet), incl. record sets with 9/10-bit short-node tables, >65535 nodes and over-limit keys; indexes loaded into receivers with a history (three load paths) and snapshot copies; watchdog: a lookup that does not return is a violation",
             text="SlimIndex.Get (one offset per key) and RangeGet (blocks of 1..64 keys sharing an offset) are compared with exact membership for every query of Q(K) through a reader that re-validates the key.",
             ref="3 C12"),
 "C15": dict(tech="runtime monitor: independent reference layouts compared on every value; exhaustive 8/16-bit (both tiers) and 32-bit (thorough), dense/boundary sampling otherwise; Encode results overwritten by the caller before re-encoding; values also encoded through pointers whose target is then overwritten; encoders configured through their exported fields; concurrent replay on shared encoder objects",
             text="Encode/Decode/GetSize/GetEncodedSize of every encoder are compared with reference layouts written from the statement, with and without trailing bytes; exhaustive for I8/I16/U16 always and for I32/U32 in the thorough tier (every 13th value with random phase in quick).",
             ref="3 C15"),
 "C16": dict(tech="runtime monitor: Go-map oracle across typed/raw/generic accessors and proto round trips, also into long-lived objects with a history; constructor error identity on invalid inputs",
             text="Each generated sparse array is probed at every index of its bitmap span (or present indexes, neighbours and 10^4 random probes for large spans) through 8 accessor paths incl. after marshal/unmarshal into typed and generic types, and compared with a Go map; invalid index lists and length mismatches must be rejected with their dedicated errors and a nil array.",
             ref="3 C16"),
 "C17": dict(tech="runtime monitor: size-bound assertion and metamorphic (K, P+K) relation on marshalled sizes, also after eight in-place reloads, in a process with background churn of all option spellings",
             text="For generated and adversarial key sets (caterpillars, long steps, fan-out 2..12/256, distinct bitmaps, 16 KiB keys) the filter-mode size must stay within 8|K|+256 bytes and prepending prefixes of 1..16000 bytes must change it by at most 16+ceil(|K|/64) bytes.",
             ref="3 C17"),
 "C18": dict(tech="runtime monitor: Stat consistency assertions against the reference model on fresh/loaded/proto-loaded instances, per-level leaf counts cross-checked through GetID, reports of tries built concurrently compared with solo builds, Stat after a refused in-place load compared with what the instance still finds (KeyCnt also on legacy-loaded streams in C06)",
             text="KeyCnt equals the retained count, NodeCnt equals the last level total = inner+leaf, columns never decrease, (0,0)/(1,1) for empty/single, Stat is unchanged by a marshal round trip, and every level holds exactly as many leaves as retained keys whose GetID lies in its id range, for every generated case under all 16 option sets; tries built and reloaded by six goroutines at once report what they report alone.",
             ref="3 C18"),
 "C19": dict(tech="runtime monitor: rendering parser (node ids exactly once, leaf lines in key order) + fresh-vs-loaded equality, workloads steered to every short-table size; four goroutines rendering one trie at once",
             text="String() is called on tries steered to contain short-node tables of many sizes, 257-bit nodes and straddling short nodes; output is parsed line by line: ids 0..L-1 each once, leaf lines carry retained values in key order, loaded renders identically.",
             ref="3 C19"),
 "C20": dict(tech="runtime monitors: snapshot/scribble differential (keys, values - floats by bit pattern -, option structs/lists/pointees, byte and numeric value buffers, value blocks, input and output buffers) around accepted, rejected and over-long builds and around successful and refused loads + mmap/mprotect guard-page sanitizer around caller-owned buffers",
             text="Caller-owned keys, values and option struct (alone, and as a window of a larger preset table with spare capacity) are snapshotted around accepted and rejected builds; value buffers handed through by pass-through encoders are overwritten after the build; input and output buffers are overwritten (00/ff/noise) and answers re-compared; the stream and the key memory live in guard-paged mappings that are read-only during the call and inaccessible afterwards, so any store or retained alias faults recoverably.",
             ref="3 C20"),
}

LEVEL_NOTE = "Trusted: the harness's reference model and generators (plain Go, harness/model.go, gen_*.go), the Go toolchain/runtime, recover() semantics. Decides only the executions produced; evidence lists what was observed and which observation gates were met."

def main():
    props = [json.loads(l) for l in open('/verif/properties.jsonl')]
    checks = []
    na = []
    for p in props:
        pid = p['id']
        c = CHECKS.get(pid)
        if not c:
            na.append({"property_id": pid, "reason": c_na.get(pid, "check not built yet (work in progress in this session)")})
            continue
        checks.append({
            "property_id": pid,
            "quick_cmd": f"bin/check {pid} quick",
            "thorough_cmd": f"bin/check {pid} thorough",
            "evidence_file": f"/verif/evidence/{pid}.json",
            "replay_cmd_template": "bin/check replay {path}",
            "engine": "slimverif",
            "level_claimed": {"category": c.get("level", "exploration"), "text": c["text"], "design_ref": "DESIGN.md section " + c["ref"]},
            "level_note": LEVEL_NOTE + c.get("note", ""),
            "technique": c["tech"],
        })
    m = {
        "version": 1,
        "setup_cmd": "bin/setup",
        "hooks": {
            "guard": "verif",
            "enable": "every harness build passes -tags verif (go build -tags verif); no guarded code exists in /repo: all observation is at the public API, on exported protobuf types and by sanitizers",
            "baseline_off_cmd": "cd /repo && GOFLAGS=-mod=mod GOPROXY=off GOSUMDB=off go test -json -vet=off -count=1 -timeout 25m ./...",
            "source_commits": [],
            "add_only": True,
        },
        "engines": [{"name": "slimverif", "path": "/verif/harness", "serves_properties": [c["property_id"] for c in checks],
                     "kind_free_text": "runtime monitors over generated/enumerated workloads: reference models, history and metamorphic oracles, fault enumeration, Go race detector (+checkptr), mmap guard pages"}],
        "checks": checks,
        "not_applicable": na,
        "notes": "All checks: exit 0 held (or inconclusive observation gate, printed as INCONCLUSIVE ... gate=), exit 1 with VIOLATION line, exit 2 inconclusive infrastructure. Honour VERIF_SEED. Seven genuine defects of openacid/slim were repaired with fix: commits, listed as fixed in /verif/known_findings.json.",
    }
    json.dump(m, open('/verif/MANIFEST.json', 'w'), indent=1)
    print("checks:", len(checks), "not_applicable:", len(na))

c_na = {}
if __name__ == '__main__':
    main()
