#!/usr/bin/env python3
"""Regenerates /verif/MANIFEST.json from the table below (kept next to the
checks so that the manifest never drifts from what bin/check can run)."""
import json, sys

CHECKS = {
 "C01": dict(tech="runtime monitor: reference-map oracle on every Get/GetID of retained keys (generated + small-scope exhaustive workloads, 16 option sets, fresh/loaded)",
             text="Every retained key of every generated and every small-universe key set was looked up through Get/GetID on fresh, Unmarshal-loaded and proto-loaded instances under all 16 option sets and compared with an executable reference map; held on the executions observed, which are gated on having crossed the representation boundaries (257-bit/17-bit/short nodes, straddling short nodes, steps >=256 half-bytes, var-len and empty leaves, de-duplicated keys).",
             ref="3 C01"),
 "C02": dict(tech="runtime monitor: reference-map oracle on RangeGet of every input key (run-length value workloads), also through index.SlimIndex",
             text="RangeGet was observed for every input key (retained or de-duplicated away) of run-length value lists under all 16 option sets and compared with the supplied value; dropped keys are classified by their relation to the range start and all classes must be seen.",
             ref="3 C02"),
 "C03": dict(tech="runtime monitor: exact ordered-map model compared on Get/GetID/RangeGet/Search for the query set Q(K); exhaustive over small universes",
             text="On every option set that stores complete keys, four lookup APIs are compared component by component with a sorted-list model for keys, prefixes, 00/ff extensions, bit and byte mutations, out-of-range, empty, random and long queries; exhaustively for all key sets of size <=4 (thorough <=5) over a nibble-diverse universe with every universe string as query.",
             ref="3 C03"),
 "C04": dict(tech="runtime monitor: sequence oracle over ScanFrom/ScanFromTo/NewIter executions + refusal observer",
             text="Every sequence delivered by the three scan entry points (both inclusivities, with/without values, stop points, end bounds, calls after exhaustion) is compared with the model's retained suffix on fresh and loaded complete tries, for fixed- and variable-width encoders; on tries that do not store complete keys each entry point must panic before yielding.",
             ref="3 C04"),
 "C09": dict(tech="runtime monitor: neighbour oracle on Search of every retained key, 16 option sets, fresh/loaded",
             text="Search(k) was observed for every retained key in every option set and compared with (previous retained value | nil, own value, next retained value | nil).",
             ref="3 C09"),
 "C10": dict(tech="runtime monitor: totality/provenance/cross-API consistency assertions on every lookup of hostile query sets; watchdog for non-termination; race-build pass adds checkptr",
             text="Get, GetID, RangeGet and Search are called inside recover() with hostile queries (long, all-00/ff, step prefixes, mutations) on tries of all modes, with and without values, empty and single-key, fresh and loaded; any panic, any value not supplied at build time and any disagreement between the APIs is a violation; a lookup that makes no progress for 120 s is reported as non-termination.",
             ref="3 C10"),
 "C13": dict(tech="runtime monitor: metamorphic oracle across the 16 option sets built from the same entries",
             text="For every query, found(more stored information) implies found(less) with the same value within equal DedupValue; Complete finds exactly the retained keys; option spellings that normalise equally answer identically.",
             ref="3 C13"),
 "C14": dict(tech="runtime monitor: differential oracle GetI8/16/32/64 vs Get on full-range integer values",
             text="Typed getters are compared with Get (found flag and number) for every query of Q(K) on tries with min/max/-1/0/random values of each width, all option sets, de-duplicated and loaded tries.",
             ref="3 C14"),
}

LEVEL_NOTE = "Trusted: the harness's reference model and generators (plain Go, harness/model.go, gen_*.go), the Go toolchain/runtime, recover() semantics. Decides only the executions produced; evidence lists what was observed and which observation gates were met."

def main():
    props = [json.loads(l) for l in open('/verif/properties.jsonl')]
    checks = []
    na = []
    for p in props:
        pid = p['id']
        c = CHECKS.get(pid)
        if not c:
            na.append({"property_id": pid, "reason": c_na.get(pid, "check not built yet (work in progress in this session)")})
            continue
        checks.append({
            "property_id": pid,
            "quick_cmd": f"bin/check {pid} quick",
            "thorough_cmd": f"bin/check {pid} thorough",
            "evidence_file": f"/verif/evidence/{pid}.json",
            "replay_cmd_template": "bin/check replay {path}",
            "engine": "slimverif",
            "level_claimed": {"category": c.get("level", "exploration"), "text": c["text"], "design_ref": "DESIGN.md section " + c["ref"]},
            "level_note": LEVEL_NOTE + c.get("note", ""),
            "technique": c["tech"],
        })
    m = {
        "version": 1,
        "setup_cmd": "bin/setup",
        "hooks": {
            "guard": "verif",
            "enable": "every harness build passes -tags verif (go build -tags verif); no guarded code exists in /repo: all observation is at the public API, on exported protobuf types and by sanitizers",
            "baseline_off_cmd": "cd /repo && GOFLAGS=-mod=mod GOPROXY=off GOSUMDB=off go test -json -vet=off -count=1 -timeout 25m ./...",
            "source_commits": [],
            "add_only": True,
        },
        "engines": [{"name": "slimverif", "path": "/verif/harness", "serves_properties": [c["property_id"] for c in checks],
                     "kind_free_text": "runtime monitors over generated/enumerated workloads: reference models, history and metamorphic oracles, fault enumeration, Go race detector (+checkptr), mmap guard pages"}],
        "checks": checks,
        "not_applicable": na,
        "notes": "All checks: exit 0 held (or inconclusive observation gate, printed as INCONCLUSIVE ... gate=), exit 1 with VIOLATION line, exit 2 inconclusive infrastructure. Honour VERIF_SEED. Six genuine defects of openacid/slim were repaired with fix: commits, listed as fixed in /verif/known_findings.json.",
    }
    json.dump(m, open('/verif/MANIFEST.json', 'w'), indent=1)
    print("checks:", len(checks), "not_applicable:", len(na))

c_na = {}
if __name__ == '__main__':
    main()
