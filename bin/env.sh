# sourced by bin/check and bin/setup: pinned offline Go environment
export GOFLAGS=-mod=mod GOPROXY=off GOSUMDB=off GOTOOLCHAIN=local CGO_ENABLED=1
export VERIF_ROOT=/verif
HARNESS=/verif/harness
BUILD=/verif/.build
mkdir -p "$BUILD" /verif/.work /verif/evidence /verif/replays
# go.sum is taken from the repository so that module verification never needs the network
if [ ! -f "$HARNESS/go.sum" ] || ! cmp -s /repo/go.sum "$HARNESS/go.sum"; then
  cp /repo/go.sum "$HARNESS/go.sum"
fi

build_plain() {
  (cd "$HARNESS" && go build -tags verif -o "$BUILD/slimverif" .) || { echo "INCONCLUSIVE reason=harness build (plain) failed against /repo"; exit 2; }
}
build_race() {
  (cd "$HARNESS" && go build -race -tags verif -o "$BUILD/slimverif.race" .) || { echo "INCONCLUSIVE reason=harness build (race) failed against /repo"; exit 2; }
}
