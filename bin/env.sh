# sourced by bin/check and bin/setup: pinned offline Go environment
export GOFLAGS=-mod=mod GOPROXY=off GOSUMDB=off GOTOOLCHAIN=local CGO_ENABLED=1
# ROOT is the checkout this script lives in: /verif for the registered
# commands, a snapshot worktree for background runs
ROOT="$(cd "$(dirname "${BASH_SOURCE[0]}")/.." && pwd)"
export VERIF_ROOT="$ROOT"
HARNESS="$ROOT/harness"
BUILD="$ROOT/.build"
mkdir -p "$BUILD" "$ROOT/.work" "$ROOT/evidence" "$ROOT/replays"
# The repository under test: /repo for the registered commands; a background
# run started with `vp run --with-repo` gets a private snapshot in VP_RUN_REPO
# (so that seeded-change trials in /repo cannot leak into it).
export VERIF_REPO="${VP_RUN_REPO:-/repo}"
if [ "$VERIF_REPO" != "/repo" ]; then
  (cd "$HARNESS" && go mod edit -replace "github.com/openacid/slim=$VERIF_REPO")
fi
# go.sum is taken from the repository so that module verification never needs the network
if [ ! -f "$HARNESS/go.sum" ] || ! cmp -s "$VERIF_REPO/go.sum" "$HARNESS/go.sum"; then
  cp "$VERIF_REPO/go.sum" "$HARNESS/go.sum"
fi

build_plain() {
  (cd "$HARNESS" && go build -tags verif -o "$BUILD/slimverif" .) || { echo "INCONCLUSIVE reason=harness build (plain) failed against /repo"; exit 2; }
}
build_race() {
  (cd "$HARNESS" && go build -race -tags verif -o "$BUILD/slimverif.race" .) || { echo "INCONCLUSIVE reason=harness build (race) failed against /repo"; exit 2; }
}
build_cover() {
  (cd "$HARNESS" && go build -cover -coverpkg=all -tags verif -o "$BUILD/slimverif.cover" .) || { echo "note: cover build failed; thorough evidence will carry no statement coverage"; rm -f "$BUILD/slimverif.cover"; }
}
build_asan() {
  (cd "$HARNESS" && go build -asan -tags verif -o "$BUILD/slimverif.asan" . 2>"$BUILD/asan-build.log") || { echo "note: asan build failed; the thorough tier will run no AddressSanitizer pass"; rm -f "$BUILD/slimverif.asan"; }
}
