package main

import (
	"fmt"
	"io/ioutil"

	"github.com/openacid/slim/encode"
	"github.com/openacid/slim/trie"
	"github.com/openacid/testkeys"
)

// C06 — data written by every older compatible version loads and answers
// correctly.

var legacyKinds = []string{"i32", "i32", "i64", "u16", "i8", "bytesN", "structLE", "defI64"}

type legacyVariant struct {
	Name  string
	Three bool   // three-section layout
	Ver   string // header version for 0.5.10-style
	Mode  int    // index into modes0510
}

func legacyVariants() []legacyVariant {
	var out []legacyVariant
	for _, v := range oldVariants {
		out = append(out, legacyVariant{Name: "3sec-" + v, Three: true, Ver: v})
	}
	for _, ver := range []string{"0.5.10", "0.5.11"} {
		for mi, m := range modes0510 {
			out = append(out, legacyVariant{Name: ver + "-" + m.Name, Ver: ver, Mode: mi})
		}
	}
	return out
}

func c06NumGen(tier string) int {
	if tier == "thorough" {
		return 4500
	}
	return 700
}

// legacyOracle runs the loaded instance against the model. fresh may be nil.
func legacyOracle(ctx *Ctx, prop string, lc *LCase, variant string, o OptSet, ld *trie.SlimTrie, fresh *trie.SlimTrie, qs []string, sampleStride int) {
	m := NewModel(lc.Keys, lc.Vals, true)
	env := &lookupEnv{ctx: ctx, prop: prop, lc: lc, opt: o, model: m, inst: "legacy:" + variant, st: ld}
	if sampleStride > 1 {
		// big fixture: sample the keys
		sub := &Model{Keys: nil, Vals: lc.Vals, Dedup: true}
		_ = sub
	}
	// Get / GetID on retained keys, RangeGet on all, Search neighbours
	env.oracleC01()
	env.oracleC02()
	env.oracleC09()
	// KeyCnt
	var s *trie.Stat
	pv, stack := try(func() { s = ld.Stat() })
	if pv != nil {
		env.viol("stat-panic", "", map[string]interface{}{"panic": fmt.Sprint(pv), "stack": stack})
	} else if int(s.KeyCnt) != len(m.RetKeys) {
		env.viol("keycnt", "", map[string]interface{}{"KeyCnt": s.KeyCnt, "retained": len(m.RetKeys)})
	} else {
		ctx.Count("keycnt_checked", 1)
	}
	// totality and consistency for arbitrary queries
	env.oracleC10(qs, false, true)
	if o.Complete() {
		env.oracleC03(qs)
		// scans
		se := &scanEnv{prop: prop, ctx: ctx, lc: lc, opt: o, model: m, inst: "legacy:" + variant, st: ld, window: 200}
		if !lc.Vals.IsNone() {
			se.encVals = make([][]byte, len(m.Ret))
			for r, i := range m.Ret {
				se.encVals[r] = lc.Vals.RefEnc(i)
			}
		}
		ok := true
		for si, q := range qs {
			if si >= 30 || !ok {
				break
			}
			ok = se.scanOnce(q, si%2 == 0, si/2%2 == 0, 0, qs[(si*7+1)%len(qs)], si%3 == 0, true)
		}
		if ok {
			se.window = 1 << 30
			se.scanOnce("", true, true, 0, "", false, false)
		}
		ctx.Count("allpref:exact_and_scans", 1)
	}
	// same structure as the fresh trie it was derived from: identical answers,
	// false positives included
	if fresh != nil {
		cur := ""
		pv, stack := try(func() {
			for _, q := range qs {
				cur = q
				v1, f1 := fresh.Get(q)
				v2, f2 := ld.Get(q)
				r1, rf1 := fresh.RangeGet(q)
				r2, rf2 := ld.RangeGet(q)
				a1, b1, c1 := fresh.Search(q)
				a2, b2, c2 := ld.Search(q)
				if f1 != f2 || rf1 != rf2 || !sameVal(v2, v1) || !sameVal(r2, r1) || !sameVal(a2, a1) || !sameVal(b2, b1) || !sameVal(c2, c1) {
					env.viol("differs-from-source-trie", q, map[string]interface{}{
						"fresh":  []string{show(v1), fmt.Sprint(f1), show(r1), fmt.Sprint(rf1), show(a1), show(b1), show(c1)},
						"loaded": []string{show(v2), fmt.Sprint(f2), show(r2), fmt.Sprint(rf2), show(a2), show(b2), show(c2)}})
					return
				}
			}
		})
		if pv != nil {
			env.viol("panic", cur, map[string]interface{}{"panic": fmt.Sprint(pv), "stack": stack})
		}
		ctx.Count("compared_with_source_trie", 1)
	}
}

func runC06Fixture(ctx *Ctx, f fixture) {
	keys := testkeys.Load(f.Set)
	buf, err := ioutil.ReadFile(f.File)
	if err != nil {
		ctx.Violate("C06/fixture-unreadable", map[string]interface{}{"file": f.File, "error": err.Error()})
		return
	}
	ctx.Eval()
	ctx.Count("fixtures", 1)
	vals := i32Vals(len(keys))
	lc := &LCase{Family: "fixture:" + f.Set, Keys: keys, Vals: vals}
	ld, lerr, pv, stack := loadTrie(vals.Encoder(), buf)
	o := OptSet{D: true}
	switch f.Opt {
	case "innpref":
		o.I = true
	case "allpref":
		o.C = true
	}
	if pv != nil || lerr != nil {
		d := lc.describe()
		d["file"], d["panic"], d["error"], d["stack"] = f.File, fmt.Sprint(pv), fmt.Sprint(lerr), stack
		ctx.Violate("C06/load-failed/fixture", d)
		return
	}
	if len(keys) >= 2 {
		ctx.Nontrivial(hashStr("fixture", f.File))
	}
	r := NewRNG(hashStr(f.File))
	qs := genQueries(r, keys, 1500)
	if len(keys) > 5000 {
		qs = qs[len(keys):] // the keys themselves are covered by oracleC01; keep the derived queries
		if len(qs) > 3000 {
			qs = qs[:3000]
		}
	}
	legacyOracle(ctx, "C06", lc, "fixture-"+f.Ver+"-"+f.Opt, o, ld, nil, qs, 1)
}

// genInnersEndOnWordBoundary searches small random key sets for one whose
// label bitmap (Slim.Inners) fills its last 64-bit word up to and including
// bit 63.
func genInnersEndOnWordBoundary(r *RNG) KeySet {
	for t := 0; t < 20000; t++ {
		var k []string
		n := r.Range(8, 60)
		alpha := "abcdefghijklmno"
		if t%2 == 1 {
			alpha = "0123456789:/_-"
		}
		for i := 0; i < n; i++ {
			b := make([]byte, r.Range(1, 4))
			for j := range b {
				b[j] = alpha[r.Intn(len(alpha))]
			}
			k = append(k, string(b))
		}
		k = sortUniq(k)
		st, err := trie.NewSlimTrie(encode.I32{}, k, nil)
		if err != nil {
			continue
		}
		b, _ := st.Marshal()
		m := parseSlim(b)
		if m == nil || m.Inners == nil || len(m.Inners.Words) == 0 {
			continue
		}
		if m.Inners.Words[len(m.Inners.Words)-1]>>63 == 1 {
			return KeySet{"inners-end-on-word-boundary", k}
		}
	}
	return KeySet{"inners-end-on-word-boundary:not-found", genSmallAlpha(r)}
}

func runC06(ctx *Ctx, idx int) {
	fx := listFixtures()
	if idx < len(fx) {
		runC06Fixture(ctx, fx[idx])
		return
	}
	idx -= len(fx)
	r := NewRNG(caseSeed(ctx.Seed, "C06", ctx.Tier, idx))
	scale := 0
	if ctx.Tier == "thorough" {
		scale = 1
	}
	if ctx.BuildMode == "race" || ctx.BuildMode == "asan" {
		scale = 2
	}
	var ks KeySet
	dir := directedKeySets()
	switch {
	case idx == 0 && ctx.BuildMode != "race":
		// > 65535 nodes: the 16-bit first-child offset of the 0.5.1-0.5.3 layout wraps
		var k []string
		for i := 0; i < 60000; i++ {
			k = append(k, string(r.Bytes(r.Range(3, 8))))
		}
		ks = KeySet{"uniform-52k", sortUniq(k)}
	case idx-1 < len(dir) && idx >= 1:
		ks = dir[idx-1]
	case idx-1-len(dir) >= 0 && idx-1-len(dir) < 2 && ctx.BuildMode != "race" && ctx.BuildMode != "asan":
		// more than 1 MiB of stored key text (leaf tails, inner prefixes) in a
		// 0.5.10/0.5.11 stream: position bitmaps of ten thousand words and more,
		// whose select index the old writers kept in another unit than today's
		ks = genMegabyte(r, 1+(idx-1-len(dir)))
	case idx-1-len(dir) >= 2 && idx-1-len(dir) < 6:
		// a label bitmap that ends exactly on a 64-bit word boundary with its
		// last bit set (found by search: one small random key set in a few
		// hundred has it) - the alignment at which counts taken "up to the last
		// bit" and "of the whole bitmap" part ways
		ks = genInnersEndOnWordBoundary(r)
	case idx-1-len(dir) == 6 && ctx.BuildMode != "race" && ctx.BuildMode != "asan":
		// more than 131072 nodes in a three-section stream
		var k []string
		for i := 0; i < 118000; i++ {
			k = append(k, string(r.Bytes(r.Range(3, 8))))
		}
		ks = KeySet{"uniform-118k", sortUniq(k)}
	default:
		ks = genKeySet(r, scale)
	}
	keys := ks.Keys
	n := len(keys)
	kind := legacyKinds[r.Intn(len(legacyKinds))]
	if idx%5 == 3 && n < 50000 {
		kind = "none" // key-only index: only the 0.5.10/0.5.11 layouts can carry it
	}
	style := 0
	if r.Chance(1, 4) && n < 50000 {
		// (the two size cases keep distinct values: a run pattern would
		// de-duplicate them below the node counts they exist for)
		style = 1 + r.Intn(4)
	}
	vals := genVals(r, kind, n, style)
	if kind == "bytesN" {
		// old layouts need a fixed element size
	}
	lc := &LCase{Family: ks.Family, Keys: keys, Vals: vals, R: r}
	ctx.Eval()
	ctx.Count("family:"+ks.Family, 1)
	ctx.Count("valkind:"+kind, 1)
	ctx.Max("keys", int64(n))
	m := NewModel(keys, vals, true)
	if len(m.RetKeys) >= 2 {
		ctx.Nontrivial(lc.hash())
	}
	if len(m.RetKeys) < n {
		ctx.Count("cases:with_dropped_keys", 1)
	}
	qmax := 1200
	if n > 20000 {
		qmax = 400
	}
	qs := genQueries(r.Fork(), keys, qmax)
	if n > 20000 {
		qs = qs[n:]
	}
	enc := vals.Encoder()
	// keys ending at inner nodes?
	for i := 0; i+1 < n; i++ {
		if len(keys[i+1]) > len(keys[i]) && keys[i+1][:len(keys[i])] == keys[i] {
			ctx.Count("cases:key_ends_at_inner_node", 1)
			break
		}
	}
	sampled := false
	var prevLegacy *lookupEnv
	for _, lv := range legacyVariants() {
		ctx.Beat()
		var stream []byte
		var fresh *trie.SlimTrie
		o := OptSet{D: true}
		if lv.Three {
			if vals.IsNone() {
				continue
			}
			var ok bool
			stream, ok = legacyStream3(keys, vals, lv.Ver)
			if !ok {
				ctx.Count("skipped:step_beyond_old_writer", 1)
				continue
			}
		} else {
			o = modes0510[lv.Mode].Opt
			st, err, pv, _ := buildTrie(enc, keys, vals.Slice(), o.Opt())
			if pv != nil || err != nil {
				ctx.Count("skipped:builder_failed", 1)
				continue
			}
			// keep C06 about the loader: derive the old stream only from a
			// fresh trie that itself passes the model on every indexed key
			okFresh := true
			try(func() {
				for rI, k := range m.RetKeys {
					v, f := st.Get(k)
					if !f || !sameVal(v, m.ValAt(rI)) {
						okFresh = false
						return
					}
				}
			})
			if !okFresh {
				ctx.Count("skipped:fresh_trie_fails_model", 1)
				continue
			}
			cur, merr := st.Marshal()
			if merr != nil {
				continue
			}
			var err2 error
			stream, err2 = legacyStream0510(cur, lv.Ver)
			if err2 != nil {
				ctx.Count("skipped:downgrade_failed", 1)
				continue
			}
			fresh = st
			sh := classify(parseSlim(cur))
			if sh.HalfBytePrefix > 0 {
				ctx.Count("0510:with_halfbyte_prefix", 1)
			}
			if sh.AlignedPrefix > 0 {
				ctx.Count("0510:with_aligned_prefix", 1)
			}
			if sh.Short > 0 {
				ctx.Count("0510:with_short_nodes", 1)
			}
			if sh.Big > 0 {
				ctx.Count("0510:with_257bit_nodes", 1)
			}
		}
		ctx.Count("streams:"+lv.Name, 1)
		ld, lerr, pv, stack := loadTrie(enc, stream)
		if pv != nil || lerr != nil {
			d := lc.describe()
			d["variant"], d["panic"], d["error"], d["stack"] = lv.Name, fmt.Sprint(pv), fmt.Sprint(lerr), stack
			ctx.Violate("C06/load-failed/"+lv.Name, d)
			continue
		}
		if lv.Three {
			// what did the stream look like?
			if cur, err := ld.Marshal(); err == nil {
				sh := classify(parseSlim(cur))
				if sh.Nodes > 65535 {
					ctx.Count("3sec:nodes_gt_65535", 1)
				}
				if sh.StepGE256 > 0 {
					ctx.Count("3sec:with_step_ge256", 1)
				}
				if sh.EndOfKeyLabels > 0 {
					ctx.Count("3sec:with_inner_and_leaf_nodes", 1)
				}
			}
		}
		// the instance loaded from the previous layout is still alive: it must
		// answer as before now that another stream has been converted
		if prevLegacy != nil {
			prevLegacy.survivorCheck(nil)
		}
		vb := ctx.nviol
		legacyOracle(ctx, "C06", lc, lv.Name, o, ld, fresh, qs, 1)
		prevLegacy = nil
		if ctx.nviol == vb {
			prevLegacy = &lookupEnv{ctx: ctx, prop: "C06", lc: lc, opt: o, model: m, inst: "survivor(legacy:" + lv.Name + ")", st: ld}
		}
		if !sampled && ctx.WantSample() && n >= 2 && n <= 8 {
			sampled = true
			d := lc.describe()
			d["variant"] = lv.Name
			d["stream_len"] = len(stream)
			ctx.Sample(d)
		}
	}
}

func init() {
	register(&CheckDef{
		ID: "C06", Level: "exploration", HangIsViolation: true, HangSeconds: 300, MemoryIsViolation: true,
		Rule:     "case = one archived fixture (97, with the testkeys key lists), or a generated (key list, fixed-size value list) serialised by the writer models into each of 12 historical layouts (three-section 0.5.0 / 0.5.1-3 / 0.5.4-6 / 0.5.7 / 0.5.8 / 0.5.9; 0.5.10 and 0.5.11 each nopref/innpref/allpref); oracle: Unmarshal returns no error and does not panic; Get/GetID on retained keys, RangeGet on every key, Search neighbours, Stat().KeyCnt equal the reference model; totality/consistency on Q(K); allpref additionally the exact-map battery and scans; 0.5.10/0.5.11 instances answer identically (false positives included) to the fresh trie they were derived from; non-trivial = at least 2 retained keys; distinct by hash of keys and values",
		NumCases: func(tier string) int { return len(listFixtures()) + c06NumGen(tier) },
		Run:      runC06,
		MinNontrivial: func(tier string) int {
			if tier == "thorough" {
				return 3000
			}
			return 300
		},
		Pre: func(tier string, seed uint64) (map[string]interface{}, error) {
			n, err := validateBuildOld()
			info := map[string]interface{}{"traces_validated_against_impl": n,
				"writer_model_validation": fmt.Sprintf("three-section writer model regenerated %d archived fixtures section by section (proto.Equal)", n)}
			if err != nil {
				return info, fmt.Errorf("three-section writer model no longer reproduces the archived fixtures: %v", err)
			}
			if n < 70 {
				return info, fmt.Errorf("only %d of 70 three-section fixtures found", n)
			}
			m, total, first := validateDowngrade()
			info["downgrade_0510_validation"] = fmt.Sprintf("today's builder + downgrade reproduces %d of %d archived 0.5.10 fixtures %s (informational)", m, total, first)
			return info, nil
		},
		Gates: func(tier string, m *Merged) []string {
			need := []string{"fixtures", "3sec:nodes_gt_65535", "3sec:with_step_ge256", "3sec:with_inner_and_leaf_nodes", "0510:with_halfbyte_prefix", "0510:with_aligned_prefix",
				"0510:with_short_nodes", "0510:with_257bit_nodes", "cases:key_ends_at_inner_node", "family:directed:empty", "family:directed:single-1", "allpref:exact_and_scans",
				"compared_with_source_trie", "keycnt_checked", "survivor_rechecks", "cases:with_dropped_keys", "valkind:none"}
			for _, lv := range legacyVariants() {
				need = append(need, "streams:"+lv.Name)
			}
			var missed []string
			for _, g := range need {
				if m.C(g) == 0 {
					missed = append(missed, g)
				}
			}
			if m.C("fixtures") == 0 || m.C("fixtures")%97 != 0 { // (once per build-mode pass)
				missed = append(missed, "all 97 fixtures")
			}
			return missed
		},
		RaceCases: func(tier string) int {
			if tier == "thorough" {
				return len(listFixtures()) + 300
			}
			return 0
		},
		Assumptions: []string{
			"the legacy writers are models: the three-section one shares no code with slim's builder and is re-validated against 70 archived fixtures at the start of every run (failure => inconclusive); the 0.5.10 one rewrites the message of today's builder and reproduces the 27 archived 0.5.10 fixtures",
			"de-duplicated inputs are not represented in the fixtures; the writer model extrapolates the same deterministic rule (labels from kept keys, subsets over all keys)",
		},
	})
}
