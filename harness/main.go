package main

import (
	"encoding/json"
	"flag"
	"fmt"
	"io/ioutil"
	"os"
	"runtime/debug"
	"sort"
	"strconv"
	"sync/atomic"
)

var registry = map[string]*CheckDef{}

func register(d *CheckDef) { registry[d.ID] = d }

func usage() {
	fmt.Fprintln(os.Stderr, "usage: slimverif check <ID> --tier quick|thorough [--seed N]")
	fmt.Fprintln(os.Stderr, "       slimverif replay <file>")
	fmt.Fprintln(os.Stderr, "       slimverif selftest")
	fmt.Fprintln(os.Stderr, "       slimverif list")
	os.Exit(2)
}

func envSeed() uint64 {
	if v := os.Getenv("VERIF_SEED"); v != "" {
		if x, err := strconv.ParseInt(v, 10, 64); err == nil {
			return uint64(x)
		}
	}
	return 1
}

func main() {
	if len(os.Args) < 2 {
		usage()
	}
	switch os.Args[1] {
	case "list":
		ids := []string{}
		for id := range registry {
			ids = append(ids, id)
		}
		sort.Strings(ids)
		for _, id := range ids {
			fmt.Println(id, registry[id].NumCases("quick"), registry[id].NumCases("thorough"))
		}
	case "check":
		if len(os.Args) < 3 {
			usage()
		}
		def := registry[os.Args[2]]
		if def == nil {
			fmt.Fprintln(os.Stderr, "unknown property", os.Args[2])
			os.Exit(2)
		}
		fs := flag.NewFlagSet("check", flag.ExitOnError)
		tier := fs.String("tier", "quick", "")
		seed := fs.Uint64("seed", envSeed(), "")
		fs.Parse(os.Args[3:])
		if *tier != "quick" && *tier != "thorough" {
			usage()
		}
		exe, _ := os.Executable()
		os.Exit(superviseCheck(def, *tier, *seed, exe))
	case "worker":
		def := registry[os.Args[2]]
		fs := flag.NewFlagSet("worker", flag.ExitOnError)
		tier := fs.String("tier", "quick", "")
		seed := fs.Uint64("seed", 1, "")
		w := fs.Int("w", 0, "")
		nw := fs.Int("nw", 1, "")
		sa := fs.Int("start-after", -1, "")
		gen := fs.Int("gen", 0, "")
		limit := fs.Int("limit", -1, "")
		dir := fs.String("dir", "", "")
		fs.Parse(os.Args[3:])
		os.Exit(runWorker(def, *tier, *seed, *w, *nw, *sa, *gen, *limit, *dir))
	case "replay":
		if len(os.Args) < 3 {
			usage()
		}
		os.Exit(replay(os.Args[2]))
	case "selftest":
		os.Exit(selftest())
	case "gen-golden":
		// development only: (re)creates /verif/golden from the repository as it is now
		made := "unknown"
		if len(os.Args) > 2 {
			made = os.Args[2]
		}
		os.Exit(genGolden(made))
	case "gen-golden2":
		made := "unknown"
		if len(os.Args) > 2 {
			made = os.Args[2]
		}
		os.Exit(genGolden2(made))
	case "selftest-asan":
		os.Exit(selftestAsan())
	case "selftest-race":
		os.Exit(selftestRace())
	default:
		usage()
	}
}

// replay re-executes the case named in a replay file against the current
// /repo and prints what the monitors see.
func replay(path string) int {
	b, err := ioutil.ReadFile(path)
	if err != nil {
		fmt.Fprintln(os.Stderr, err)
		return 2
	}
	var rep struct {
		Property  string `json:"property"`
		Tier      string `json:"tier"`
		Seed      uint64 `json:"seed"`
		CaseIdx   int    `json:"case_idx"`
		BuildMode string `json:"build_mode"`
	}
	if err := json.Unmarshal(b, &rep); err != nil {
		fmt.Fprintln(os.Stderr, err)
		return 2
	}
	def := registry[rep.Property]
	if def == nil || rep.CaseIdx < 0 {
		fmt.Fprintln(os.Stderr, "replay file names no re-executable case (race reports are not tied to one case)")
		return 2
	}
	if rep.BuildMode != buildMode {
		fmt.Printf("note: recorded in the %s build, replaying in the %s build\n", rep.BuildMode, buildMode)
	}
	debug.SetPanicOnFault(true)
	ctx := newCtx(def.ID, rep.Tier, rep.Seed)
	ctx.Verbose = true
	ctx.curCase = rep.CaseIdx
	if os.Getenv("VERIF_CHURN") != "0" {
		startChurn()
		atomic.StoreInt32(&churnActive, 1)
	}
	setOptSpelling(rep.CaseIdx)
	fmt.Printf("replaying %s tier=%s seed=%d case=%d\n", def.ID, rep.Tier, rep.Seed, rep.CaseIdx)
	runCaseRecovered(def, ctx, rep.CaseIdx)
	if ctx.nviol > 0 {
		fmt.Printf("REPRODUCED: %d oracle hits\n", ctx.nviol)
		return 1
	}
	fmt.Println("not reproduced: all monitors silent on this case")
	return 0
}
