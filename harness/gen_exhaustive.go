package main

import "sort"

// universeA: every string of length <=2 over {00,0f,10,ff} (21 strings).
// universeB: every string of length <=3 over {07,70,7f} (40 strings).
func universe(alpha []byte, maxLen int) []string {
	out := []string{""}
	prev := []string{""}
	for l := 1; l <= maxLen; l++ {
		var cur []string
		for _, p := range prev {
			for _, a := range alpha {
				cur = append(cur, p+string([]byte{a}))
			}
		}
		out = append(out, cur...)
		prev = cur
	}
	sort.Strings(out)
	return out
}

var universeA = universe([]byte{0x00, 0x0f, 0x10, 0xff}, 2)
var universeB = universe([]byte{0x07, 0x70, 0x7f}, 3)

// subsetsUpTo enumerates all index subsets of {0..n-1} with size <= k, in a
// fixed order (by size, then lexicographic).
func subsetsUpTo(n, k int) [][]int {
	var out [][]int
	for sz := 0; sz <= k; sz++ {
		idx := make([]int, sz)
		for i := range idx {
			idx[i] = i
		}
		for {
			out = append(out, append([]int{}, idx...))
			// next combination
			i := sz - 1
			for i >= 0 && idx[i] == n-sz+i {
				i--
			}
			if i < 0 {
				break
			}
			idx[i]++
			for j := i + 1; j < sz; j++ {
				idx[j] = idx[j-1] + 1
			}
		}
		if sz == 0 {
			continue
		}
	}
	return out
}

// ExhSpace describes the exhaustive part of a tier.
type ExhSpace struct {
	Univ    []string
	Subsets [][]int
	Queries []string
}

func newExhSpace(univ []string, k int) *ExhSpace {
	e := &ExhSpace{Univ: univ, Subsets: subsetsUpTo(len(univ), k)}
	seen := map[string]bool{}
	for _, u := range univ {
		for _, q := range []string{u, u + "\x00", u + "\xff"} {
			if !seen[q] {
				seen[q] = true
				e.Queries = append(e.Queries, q)
			}
		}
	}
	return e
}

const exhChunk = 48

var exhCache = map[string][]*ExhSpace{}

// exhSpaces returns the exhaustive universes of a tier.
func exhSpaces(tier string) []*ExhSpace {
	if s, ok := exhCache[tier]; ok {
		return s
	}
	var s []*ExhSpace
	if tier == "thorough-light" {
		// scans cost ~50x a lookup battery per key set
		s = []*ExhSpace{newExhSpace(universeA, 5), newExhSpace(universeB, 3)}
	} else if tier == "thorough" {
		s = []*ExhSpace{newExhSpace(universeA, 5), newExhSpace(universeB, 4)}
	} else {
		s = []*ExhSpace{newExhSpace(universeA, 4)}
	}
	exhCache[tier] = s
	return s
}

func exhNumChunks(tier string) int {
	n := 0
	for _, s := range exhSpaces(tier) {
		n += (len(s.Subsets) + exhChunk - 1) / exhChunk
	}
	return n
}

// exhChunkAt returns the universe and subset range of chunk c.
func exhChunkAt(tier string, c int) (*ExhSpace, [][]int) {
	for _, s := range exhSpaces(tier) {
		nc := (len(s.Subsets) + exhChunk - 1) / exhChunk
		if c < nc {
			lo := c * exhChunk
			hi := lo + exhChunk
			if hi > len(s.Subsets) {
				hi = len(s.Subsets)
			}
			return s, s.Subsets[lo:hi]
		}
		c -= nc
	}
	return nil, nil
}

// runPatterns enumerates all 2^(n-1) assignments of "equal to predecessor".
// Values are run ids, so equal adjacent <=> same run.
func runPatterns(n int) [][]int64 {
	if n == 0 {
		return [][]int64{{}}
	}
	var out [][]int64
	for m := 0; m < 1<<uint(n-1); m++ {
		v := make([]int64, n)
		cur := int64(0)
		for i := 1; i < n; i++ {
			if m>>(uint(i-1))&1 == 1 {
				cur++
			}
			v[i] = cur
		}
		out = append(out, v)
	}
	return out
}
