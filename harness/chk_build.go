package main

import (
	"fmt"
	"runtime"
	"sort"
	"strings"

	"github.com/openacid/errors"
	"github.com/openacid/slim/trie"
)

// C08 — construction is all-or-nothing.

func c08RunLengths(tier string) []int {
	set := map[int]bool{}
	for l := 0; l <= 40; l++ {
		set[l] = true
	}
	for k := uint(5); k <= 16; k++ {
		for d := -2; d <= 2; d++ {
			set[(1<<k)+d] = true
		}
	}
	for l := 65520; l <= 65550; l++ {
		set[l] = true
	}
	for _, l := range []int{255, 256, 257, 511, 512, 4095, 4096, 4097, 32767, 32768, 32769, 40000, 50001, 60000, 65534, 65535, 65536, 65537, 66000, 70000} {
		set[l] = true
	}
	if tier == "thorough" {
		for l := 65000; l <= 66100; l += 1 {
			set[l] = true
		}
		for _, l := range []int{98303, 98304, 131070, 131071, 131072, 131073, 131075, 196608, 262143, 262144, 262145} {
			set[l] = true
		}
		for l := 41; l < 3000; l += 7 {
			set[l] = true
		}
	}
	out := make([]int, 0, len(set))
	for l := range set {
		out = append(out, l)
	}
	sort.Ints(out)
	return out
}

// runKeys builds a key set whose single-branch run below the given placement
// is exactly L half-bytes long.
func runKeys(L int, placement int, fill byte) []string {
	p := strings.Repeat(string([]byte{fill}), L/2)
	var a, b string
	if L%2 == 0 {
		a, b = p+"\x10", p+"\x20tail"
	} else {
		a, b = p+"\x51", p+"\x52tail"
	}
	switch placement {
	case 0: // at the root
		return []string{a, b}
	case 1: // below a 17-bit node: "a"/"b" share their high nibble
		return sortUniq([]string{"a" + a, "a" + b, "b"})
	case 2: // below a 257-bit node
		ks := []string{}
		for i := 0; i < 12; i++ {
			ks = append(ks, string([]byte{byte(i)}))
		}
		ks = append(ks, "\x20"+a, "\x20"+b)
		return sortUniq(ks)
	case 3: // two runs in sequence, the second below the first
		q := strings.Repeat("\x33", L/2)
		return sortUniq([]string{a[:len(a)-1] + "\x70" + q + "\x01", a[:len(a)-1] + "\x70" + q + "\x02", b})
	case 4: // the run leads INTO a 257-bit node: more than 10 distinct bytes follow it
		// (byte nodes take whole bytes, so the run is L rounded down to even)
		ks := []string{}
		for i := 0; i < 12; i++ {
			ks = append(ks, p+string([]byte{byte(i*21 + 1)})+"t")
		}
		return sortUniq(ks)
	case 5: // run into a 257-bit node that sits below another 257-bit node
		ks := []string{}
		for i := 0; i < 12; i++ {
			ks = append(ks, string([]byte{byte(i + 3)}))
			ks = append(ks, "\x40"+p+string([]byte{byte(i*20 + 2)}))
		}
		return sortUniq(ks)
	}
	return nil
}

const c08Placements = 6

var c08PlacementNames = []string{"root", "below-17bit", "below-257bit", "chained", "into-257bit", "into-257bit-below-257bit"}

func c08NumInject(tier string) int {
	if tier == "thorough" {
		return 300000
	}
	return 25000
}

func c08NumCases(tier string) int {
	return c08NumInject(tier) + len(c08RunLengths(tier))*c08Placements
}

func c08Viol(ctx *Ctx, clause string, o OptSet, keys []string, extra map[string]interface{}) {
	d := map[string]interface{}{"opt": o.String(), "n_keys": len(keys), "keys_hex": hexKeys(keys, 30)}
	for k, v := range extra {
		d[k] = v
	}
	ctx.Violate("C08/"+clause+"/"+o.String(), d)
}

// verifyAccepted runs C01's oracle on an accepted build.
func verifyAccepted(ctx *Ctx, st *trie.SlimTrie, o OptSet, keys []string, vals *ValSpec, clause string, extra map[string]interface{}) bool {
	m := NewModel(keys, vals, o.D)
	cur := ""
	ok := true
	pv, stack := try(func() {
		for r, k := range m.RetKeys {
			cur = k
			v, found := st.Get(k)
			if !found || !sameVal(v, m.ValAt(r)) {
				e := map[string]interface{}{"query_hex": hexq(k), "found": found, "observed": show(v), "expected": show(m.ValAt(r))}
				for a, b := range extra {
					e[a] = b
				}
				c08Viol(ctx, clause, o, keys, e)
				ok = false
				return
			}
		}
		for i, k := range keys {
			cur = k
			v, found := st.RangeGet(k)
			var want interface{}
			if !vals.IsNone() {
				want = vals.At(i)
			}
			if !found || !sameVal(v, want) {
				e := map[string]interface{}{"query_hex": hexq(k), "api": "RangeGet", "found": found, "observed": show(v), "expected": show(want)}
				for a, b := range extra {
					e[a] = b
				}
				c08Viol(ctx, clause, o, keys, e)
				ok = false
				return
			}
		}
	})
	if pv != nil {
		e := map[string]interface{}{"query_hex": hexq(cur), "panic": fmt.Sprint(pv), "stack": stack}
		for a, b := range extra {
			e[a] = b
		}
		c08Viol(ctx, clause+"-panic", o, keys, e)
		return false
	}
	return ok
}

func runC08(ctx *Ctx, idx int) {
	r := NewRNG(caseSeed(ctx.Seed, "C08", ctx.Tier, idx))
	opts := allOptSets()
	ninj := c08NumInject(ctx.Tier)
	if idx >= ninj {
		// ---- run-length sweep
		j := idx - ninj
		ls := c08RunLengths(ctx.Tier)
		L := ls[j/c08Placements]
		placement := j % c08Placements
		fill := []byte{'x', 0x00, 0xff, 0x5a}[r.Intn(4)]
		keys := runKeys(L, placement, fill)
		ctx.Eval()
		ctx.Nontrivial(mix(uint64(L), uint64(placement)+77))
		kinds := []string{"none", "i32", "str16"}
		vals := genVals(r, kinds[r.Intn(3)], len(keys), r.Intn(2))
		maxLen := 0
		for _, k := range keys {
			if len(k) > maxLen {
				maxLen = len(k)
			}
		}
		for _, o := range opts {
			st, err, pv, stack := buildTrie(vals.Encoder(), keys, vals.Slice(), o.Opt())
			ex := map[string]interface{}{"run_half_bytes": L, "placement": c08PlacementNames[placement], "max_key_len": maxLen, "value_kind": vals.Kind}
			if pv != nil {
				ex["panic"], ex["stack"] = fmt.Sprint(pv), stack
				c08Viol(ctx, "build-panic", o, keys, ex)
				continue
			}
			ctx.Count("sweep:builds", 1)
			if err != nil {
				if st != nil {
					c08Viol(ctx, "error-with-trie", o, keys, ex)
				}
				if maxLen <= 16384 {
					ex["error"] = err.Error()
					c08Viol(ctx, "valid-rejected", o, keys, ex)
				}
				ctx.Count("sweep:rejected", 1)
				if errors.Cause(err) == trie.ErrKeyOutOfOrder {
					ex["error"] = err.Error()
					c08Viol(ctx, "wrong-error-for-valid-order", o, keys, ex)
				}
				continue
			}
			if st == nil {
				c08Viol(ctx, "nil-trie-nil-error", o, keys, ex)
				continue
			}
			ctx.Count("sweep:accepted", 1)
			if maxLen > 16384 {
				ctx.Count("sweep:accepted_beyond_documented_length", 1)
			}
			if L >= 65536 {
				ctx.Count("sweep:accepted_run_ge_65536", 1)
			}
			if L >= 256 {
				ctx.Count("sweep:accepted_run_ge_256", 1)
			}
			verifyAccepted(ctx, st, o, keys, vals, "accepted-but-loses-keys", ex)
			// also after a round trip
			if stream, merr := st.Marshal(); merr == nil {
				if ld, lerr, lpv, _ := loadTrie(vals.Encoder(), stream); lerr == nil && lpv == nil {
					ex["instance"] = "loaded"
					verifyAccepted(ctx, ld, o, keys, vals, "accepted-but-loses-keys", ex)
				}
			}
		}
		// the same long keys out of order: however long, a list that is not
		// strictly ascending is rejected with the out-of-order error
		if len(keys) >= 2 {
			for t := 0; t < 4; t++ {
				o := opts[(j+t*5)%16]
				bad := append([]string{}, keys...)
				kind := "swap"
				switch t {
				case 0:
					bad[0], bad[1] = bad[1], bad[0]
				case 1:
					bad[len(bad)-1], bad[len(bad)-2] = bad[len(bad)-2], bad[len(bad)-1]
				case 2:
					kind = "duplicate"
					bad = append(bad[:1], bad[0:]...)
				case 3:
					kind = "prefix-after"
					bad = append(bad, bad[len(bad)-1][:len(bad[len(bad)-1])/2])
				}
				bv := genVals(r, vals.Kind, len(bad), 0)
				st, err, pv, stack := buildTrie(bv.Encoder(), bad, bv.Slice(), o.Opt())
				ex := map[string]interface{}{"run_half_bytes": L, "placement": c08PlacementNames[placement], "injection": kind, "max_key_len": maxLen}
				ctx.Count("sweep:invalid_builds", 1)
				if pv != nil {
					ex["panic"], ex["stack"] = fmt.Sprint(pv), stack
					c08Viol(ctx, "invalid-panic", o, bad, ex)
				} else if err == nil {
					c08Viol(ctx, "invalid-accepted", o, bad, ex)
				} else if errors.Cause(err) != trie.ErrKeyOutOfOrder {
					ex["error"] = truncate(err.Error(), 200)
					c08Viol(ctx, "wrong-error", o, bad, ex)
				} else if st != nil {
					c08Viol(ctx, "error-with-trie", o, bad, ex)
				}
			}
		}
		if ctx.WantSample() && L > 300 && L < 70000 && placement == 1 {
			ctx.Sample(map[string]interface{}{"kind": "run-sweep", "run_half_bytes": L, "placement": "below-17bit", "n_keys": len(keys), "max_key_len": maxLen})
		}
		return
	}

	// ---- long lists, a violation at EVERY position in turn: whatever the
	// order check does with a long list (blocks, shards, strides), every
	// neighbouring pair has to be compared. A rejected build costs one pass over
	// the list, so n builds of n keys are affordable.
	if idx < 10 {
		n := []int{2047, 2048, 2049, 3000, 4096, 4097, 5000, 6144, 2048 + r.Intn(4000), 2048 + r.Intn(4000)}[idx]
		var keys []string
		for len(keys) < n {
			keys = sortUniq(append(keys, genUniform(r, 9000)...))
		}
		keys = keys[:n]
		ctx.Eval()
		ctx.Nontrivial(hashStr(keys[:50]...) + uint64(n))
		o := opts[idx%16]
		buf := append([]string{}, keys...)
		accepted := 0
		for i := 0; i+1 < n && accepted < 3; i++ {
			if i&255 == 0 {
				ctx.Beat()
			}
			how := "swap"
			if i%2 == 0 {
				buf[i], buf[i+1] = buf[i+1], buf[i]
			} else {
				how = "duplicate"
				buf[i+1] = buf[i]
			}
			st, err, pv, stack := buildTrie(nil, buf, nil, o.Opt())
			ex := map[string]interface{}{"injection": fmt.Sprintf("%s@%d of %d keys", how, i, n), "gomaxprocs": runtime.GOMAXPROCS(0)}
			if pv != nil {
				ex["panic"], ex["stack"] = fmt.Sprint(pv), stack
				c08Viol(ctx, "invalid-panic", o, buf[max(0, i-2):min(n, i+4)], ex)
				accepted++
			} else if err == nil {
				c08Viol(ctx, "invalid-accepted", o, buf[max(0, i-2):min(n, i+4)], ex)
				accepted++
			} else if errors.Cause(err) != trie.ErrKeyOutOfOrder {
				ex["error"] = err.Error()
				c08Viol(ctx, "wrong-error", o, buf[max(0, i-2):min(n, i+4)], ex)
				accepted++
			} else if st != nil {
				c08Viol(ctx, "error-with-trie", o, buf[max(0, i-2):min(n, i+4)], ex)
			}
			buf[i], buf[i+1] = keys[i], keys[i+1]
		}
		ctx.Count("invalid:long_lists_every_position", 1)
		ctx.Count("invalid:builds", int64(n-1))
		return
	}

	// ---- order violations injected into a valid list
	ks := genKeySet(r, 2)
	if idx%5 == 0 {
		ks = KeySet{"small-alpha", genSmallAlpha(r)}
	}
	if idx%11 == 0 {
		// signed-vs-unsigned traps: bytes around 0x7f/0x80
		alpha := []byte{0x00, 0x7e, 0x7f, 0x80, 0x81, 0xff}
		var k []string
		for i := 0; i < r.Range(2, 30); i++ {
			k = append(k, randOver(r, alpha, r.Range(0, 4)))
		}
		ks = KeySet{"signed-trap", sortUniq(k)}
	}
	keys := ks.Keys
	n := len(keys)
	vals := genVals(r, pickKind(r), n, r.Intn(5))
	ctx.Eval()
	ctx.Count("family:"+ks.Family, 1)
	// the valid list must be accepted
	maxLen := 0
	for _, k := range keys {
		if len(k) > maxLen {
			maxLen = len(k)
		}
	}
	o := opts[r.Intn(16)]
	st, err, pv, stack := buildTrie(vals.Encoder(), keys, vals.Slice(), o.Opt())
	if pv != nil {
		c08Viol(ctx, "build-panic", o, keys, map[string]interface{}{"panic": fmt.Sprint(pv), "stack": stack})
	} else if err != nil || st == nil {
		c08Viol(ctx, "valid-rejected", o, keys, map[string]interface{}{"error": fmt.Sprint(err), "max_key_len": maxLen})
	} else {
		ctx.Count("valid:accepted", 1)
		// ... and what was accepted finds its own keys (every value kind and
		// encoder, user-defined ones included)
		if verifyAccepted(ctx, st, o, keys, vals, "accepted-but-loses-keys", map[string]interface{}{"value_kind": vals.Kind, "encoder": fmt.Sprintf("%+v", vals.Encoder())}) {
			ctx.Count("valid:accepted_and_verified", 1)
		}
	}
	if n == 0 {
		return
	}
	// injections
	type inj struct {
		name string
		keys []string
		vals *ValSpec
	}
	mk := func(name string, pos int, f func(k []string) []string) inj {
		k := f(append([]string{}, keys...))
		// values: re-generate to match the length
		v := genVals(r, vals.Kind, len(k), r.Intn(5))
		return inj{fmt.Sprintf("%s@%d", name, pos), k, v}
	}
	positions := []int{}
	if n <= 12 {
		for i := 0; i < n; i++ {
			positions = append(positions, i)
		}
	} else {
		positions = []int{0, n - 1, n - 2, r.Intn(n), r.Intn(n), r.Intn(n)}
	}
	var injs []inj
	for _, pos := range positions {
		pos := pos
		// equal neighbours: duplicate key pos
		injs = append(injs, mk("duplicate", pos, func(k []string) []string {
			out := append([]string{}, k[:pos+1]...)
			out = append(out, k[pos])
			return append(out, k[pos+1:]...)
		}))
		if pos+1 < n {
			injs = append(injs, mk("swap", pos, func(k []string) []string {
				k[pos], k[pos+1] = k[pos+1], k[pos]
				return k
			}))
		}
		if len(keys[pos]) > 0 {
			// key followed by its own proper prefix
			injs = append(injs, mk("prefix-after", pos, func(k []string) []string {
				pl := r.Intn(len(k[pos]))
				out := append([]string{}, k[:pos+1]...)
				out = append(out, k[pos][:pl])
				return append(out, k[pos+1:]...)
			}))
		}
		if pos > 0 && r.Chance(1, 3) {
			// far inversion: move key pos to the front
			injs = append(injs, mk("move-to-front", pos, func(k []string) []string {
				x := k[pos]
				copy(k[1:pos+1], k[:pos])
				k[0] = x
				return k
			}))
		}
	}
	if n >= 4 {
		// multiple violations
		injs = append(injs, mk("reverse", 0, func(k []string) []string {
			for i, j := 0, len(k)-1; i < j; i, j = i+1, j-1 {
				k[i], k[j] = k[j], k[i]
			}
			return k
		}))
		injs = append(injs, mk("two-swaps", 0, func(k []string) []string {
			k[0], k[1] = k[1], k[0]
			k[n-1], k[n-2] = k[n-2], k[n-1]
			return k
		}))
	}
	// the caller's slice is a buffer with a history: the list that was accepted a
	// moment ago is edited in place (same backing array, same length or
	// shorter, or refilled from the start) and submitted again. What was true
	// of the slice at the previous call says nothing about it now.
	if n >= 2 && st != nil && err == nil {
		buf := append(make([]string, 0, n+4), keys...)
		vs := vals.Slice()
		inPlace := func(name string, edit func() []string) {
			if _, e0, p0, _ := buildTrie(vals.Encoder(), buf[:n], vs, o.Opt()); e0 != nil || p0 != nil {
				return // the valid list itself is not accepted: reported above
			}
			bad := edit()
			isBad := false
			for i := 0; i+1 < len(bad); i++ {
				if bad[i] >= bad[i+1] {
					isBad = true
				}
			}
			if isBad {
				bv := genVals(r, vals.Kind, len(bad), 0)
				st2, err2, pv2, stack2 := buildTrie(bv.Encoder(), bad, bv.Slice(), o.Opt())
				ctx.Count("invalid:builds_from_an_edited_accepted_slice", 1)
				ex := map[string]interface{}{"injection": name + " (in place, in the slice that was accepted by the previous call)", "value_kind": vals.Kind}
				if pv2 != nil {
					ex["panic"], ex["stack"] = fmt.Sprint(pv2), stack2
					c08Viol(ctx, "invalid-panic", o, bad, ex)
				} else if err2 == nil {
					c08Viol(ctx, "invalid-accepted", o, bad, ex)
				} else if errors.Cause(err2) != trie.ErrKeyOutOfOrder {
					ex["error"] = err2.Error()
					c08Viol(ctx, "wrong-error", o, bad, ex)
				} else if st2 != nil {
					c08Viol(ctx, "error-with-trie", o, bad, ex)
				}
			}
			copy(buf[:n], keys) // restore
		}
		p := r.Intn(n - 1)
		inPlace("swap", func() []string { buf[p], buf[p+1] = buf[p+1], buf[p]; return buf[:n] })
		inPlace("overwrite-with-neighbour", func() []string { buf[p+1] = buf[p]; return buf[:n] })
		inPlace("shorter-and-swapped", func() []string { buf[0], buf[n-1] = buf[n-1], buf[0]; return buf[:n-1+n%2] })
		inPlace("refilled-from-the-start", func() []string {
			nb := buf[:0]
			for i := n - 1; i >= 0; i-- {
				nb = append(nb, keys[i])
			}
			return nb
		})
		inPlace("grown-with-a-smaller-key", func() []string { return append(buf[:n], keys[0]) })
	}
	nontriv := false
	for ii, in := range injs {
		// is it really out of order? (an injection could coincide with order)
		bad := false
		for i := 0; i+1 < len(in.keys); i++ {
			if in.keys[i] >= in.keys[i+1] {
				bad = true
			}
		}
		if !bad {
			continue
		}
		nontriv = true
		o := opts[(ii+idx)%16]
		st, err, pv, stack := buildTrie(in.vals.Encoder(), in.keys, in.vals.Slice(), o.Opt())
		ctx.Count("invalid:builds", 1)
		ctx.Count("invalid:"+strings.SplitN(in.name, "@", 2)[0], 1)
		ex := map[string]interface{}{"injection": in.name, "value_kind": in.vals.Kind}
		if pv != nil {
			ex["panic"], ex["stack"] = fmt.Sprint(pv), stack
			c08Viol(ctx, "invalid-panic", o, in.keys, ex)
			continue
		}
		if err == nil {
			c08Viol(ctx, "invalid-accepted", o, in.keys, ex)
			continue
		}
		if errors.Cause(err) != trie.ErrKeyOutOfOrder {
			ex["error"] = err.Error()
			c08Viol(ctx, "wrong-error", o, in.keys, ex)
			continue
		}
		if st != nil {
			c08Viol(ctx, "error-with-trie", o, in.keys, ex)
		}
		ctx.Count("invalid:rejected_with_ErrKeyOutOfOrder", 1)
		if ctx.WantSample() && len(in.keys) <= 8 {
			ctx.Sample(map[string]interface{}{"kind": "order-violation", "injection": in.name, "keys_hex": hexKeys(in.keys, 10), "opt": o.String(), "error": err.Error()})
		}
	}
	if nontriv {
		ctx.Nontrivial(hashStr(keys...))
	}
}

func init() {
	register(&CheckDef{
		ID: "C08", Level: "exploration", MemoryIsViolation: true, HangIsViolation: true, HangSeconds: 180,
		Rule:     "two case kinds: (a) a generated valid key list (must be accepted) with order violations injected at every position of short lists / seeded positions of long ones (duplicate, swap, key followed by its own prefix, move-to-front, reverse, two swaps; signed-vs-unsigned byte traps) - each must be rejected with ErrKeyOutOfOrder and a nil trie; (b) run-length sweep: key sets whose single-branch run is exactly L half-bytes (L dense around powers of two and 65535/65536, up to 70000; thorough to 262145) at the root, below a 17-bit node, below a 257-bit node, chained, leading into a 257-bit node (at the root and below another 257-bit node), all 16 option sets - either an error with a nil trie or a trie (fresh and loaded) that finds every key it was built from; lists within the documented 16 KiB key length must be accepted; the same long keys swapped, duplicated or followed by a prefix must be rejected with ErrKeyOutOfOrder whatever their length; non-trivial = list with at least one effective violation, or one (L, placement); distinct by hash",
		NumCases: c08NumCases,
		Run:      runC08,
		MinNontrivial: func(tier string) int {
			if tier == "thorough" {
				return 10000
			}
			return 1000
		},
		Gates: shapeGates("invalid:long_lists_every_position", "invalid:builds_from_an_edited_accepted_slice", "invalid:duplicate", "invalid:swap", "invalid:prefix-after", "invalid:move-to-front", "invalid:reverse", "family:signed-trap",
			"invalid:rejected_with_ErrKeyOutOfOrder", "valid:accepted", "sweep:accepted", "sweep:rejected", "sweep:accepted_beyond_documented_length", "sweep:accepted_run_ge_65536", "sweep:accepted_run_ge_256", "sweep:invalid_builds"),
		Assumptions: []string{"the documented key-length limit is 16 KiB; beyond it either outcome (error, or a working trie) is accepted", "reference model as in C01"},
	})
}
