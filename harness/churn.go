package main

import (
	"encoding/binary"
	"fmt"
	"runtime"
	"sync/atomic"
	"time"

	"github.com/golang/protobuf/proto"
	"github.com/openacid/slim/array"
	"github.com/openacid/slim/encode"
	"github.com/openacid/slim/trie"
)

// Background churn: while a worker runs its cases, a second goroutine of the
// same process keeps building, marshalling, loading, resetting, rendering and
// querying UNRELATED small tries, arrays and encoders of its own, with every
// spelling of the options. Nothing it touches is shared with the monitors, so
// on code without package-level mutable state it cannot change any observation.
// What it adds is context: a process that has done, and is doing, other things
// with the library - the history and the company a real program provides and a
// one-case-at-a-time monitor lacks. A scratch object, pool, cache or "shared
// constant" at package level that is written on some path shows up as a wrong
// answer in the monitor that owns the property (or, in the race build, as a
// report from the race detector).
//
// The churn never judges anything itself and swallows its own panics.

var churnActive int32
var churnIters int64
var churnPanics int64

type churnStruct struct {
	A int32
	B uint16
	C [3]uint8
}

func churnKeySets() [][]string {
	var sets [][]string
	sets = append(sets, []string{"abc", "abcd", "abd", "abde", "bc", "bcd", "bcde", "cde"})
	var b []string
	b = append(b, "\x00")
	for i := 0; i < 40; i++ {
		b = append(b, string([]byte{byte(0x30 + i/8), byte(0x41 + i%8*5)}))
	}
	sets = append(sets, sortUniq(b))
	var c []string
	for i := 0; i < 300; i++ {
		c = append(c, fmt.Sprintf("%06d", i*37%1000*7))
	}
	sets = append(sets, sortUniq(c))
	var d []string
	d = append(d, "0")
	for x := 0; x < 11; x++ {
		for y := 0; y < 11; y++ {
			d = append(d, string([]byte{byte('a' + x), byte('a' + y)}), string([]byte{byte('a' + x), byte('a' + y), 'z', 'z', byte('0' + y)}))
		}
	}
	sets = append(sets, sortUniq(d))
	return sets
}

func churnOnce(i int, sets [][]string, pool map[int][2]*trie.SlimTrie) {
	defer func() {
		if r := recover(); r != nil {
			atomic.AddInt64(&churnPanics, 1)
		}
	}()
	churnOnceRaw(i, sets, pool)
}

func churnOnceRaw(i int, sets [][]string, pool map[int][2]*trie.SlimTrie) {
	keys := sets[i%len(sets)]
	n := len(keys)
	opt, oset := triOpt(i % 81)
	var enc encode.Encoder
	var vals interface{}
	switch (i / 4) % 5 {
	case 0:
	case 1:
		v := make([]int32, n)
		for j := range v {
			v[j] = int32(j / 3)
		}
		enc, vals = encode.I32{}, v
	case 2:
		v := make([]string, n)
		for j := range v {
			v[j] = keys[j][:len(keys[j])%3]
		}
		enc, vals = encode.String16{}, v
	case 3, 4:
		order := binary.ByteOrder(binary.BigEndian)
		if (i/4)%5 == 4 {
			order = binary.LittleEndian
		}
		e, err := encode.NewTypeEncoderEndian(churnStruct{}, order)
		if err != nil {
			return
		}
		v := make([]churnStruct, n)
		for j := range v {
			v[j] = churnStruct{int32(j) * 77777, uint16(j), [3]uint8{1, 2, uint8(j)}}
		}
		enc, vals = e, v
	}
	st, err := trie.NewSlimTrie(enc, keys, vals, opt)
	if err != nil || st == nil {
		return
	}
	b, err := st.Marshal()
	if err != nil {
		return
	}
	// long-lived instances that are loaded over and over, one pair per encoder
	// (an instance keeps the encoder it was created with)
	kindIdx := (i / 4) % 5
	pair, ok := pool[kindIdx]
	if i%256 < 20 {
		ok = false // replaced now and then: whatever they may have accumulated stays bounded
	}
	if !ok {
		u1, _ := trie.NewSlimTrie(enc, keys[:2], nil)
		u2, _ := trie.NewSlimTrie(enc, keys[:1], nil)
		if u1 == nil || u2 == nil {
			return
		}
		pair = [2]*trie.SlimTrie{u1, u2}
		pool[kindIdx] = pair
	}
	used, used2 := pair[0], pair[1]
	used.Unmarshal(b)
	proto.Unmarshal(b, used2)
	st.Stat()
	used.Stat()
	if n <= 50 {
		_ = st.String()
	}
	for j := 0; j < n; j += 1 + n/24 {
		k := keys[j]
		st.Get(k)
		used.RangeGet(k)
		used2.Search(k + "\x00")
		st.GetID(k[:len(k)/2])
		if _, ok := enc.(encode.I32); ok {
			st.GetI32(k)
		}
	}
	if oset.Complete() {
		cnt := 0
		used.ScanFrom(keys[n/3], true, true, func(k, v []byte) bool { cnt++; return cnt < 12 })
		next := st.NewIter("", true, false)
		for j := 0; j < 5; j++ {
			next()
		}
	}
	if i%7 == 0 {
		used2.Reset()
	}
	// arrays and element encoders
	idx := make([]int32, 0, 40)
	elts32 := make([]uint32, 0, 40)
	elts64 := make([]uint64, 0, 40)
	for j := 0; j < 40; j++ {
		idx = append(idx, int32(j*(1+i%5)+j/7*64))
		elts32 = append(elts32, uint32(j)*0x01010101)
		elts64 = append(elts64, uint64(j)*0x0102030405060708)
	}
	if a, err := array.NewU32(idx, elts32); err == nil {
		a.Get(idx[7])
		a.Get(idx[7] + 1)
	}
	encode.NewTypeEncoderEndian(uint64(0), binary.BigEndian)
	encode.NewTypeEncoderEndian(int64(0), binary.BigEndian)
	if a, err := array.NewU64(idx, elts64); err == nil {
		a.Get(idx[3])
	}
	g := &array.Array{}
	if g.Init(idx, elts64) == nil {
		g.Get(idx[5])
	}
	for _, e := range []encode.Encoder{encode.I8{}, encode.I16{}, encode.U64{}, encode.Int{}, encode.String16{}} {
		var v interface{}
		switch e.(type) {
		case encode.I8:
			v = int8(i)
		case encode.I16:
			v = int16(i * 31)
		case encode.U64:
			v = uint64(i) * 0x9e3779b97f4a7c15
		case encode.Int:
			v = i - 40
		case encode.String16:
			v = keys[i%n]
		}
		e.Decode(e.Encode(v))
	}
}

// startChurn launches the churn goroutine; it works only while churnActive is set.
func startChurn() {
	sets := churnKeySets()
	pool := map[int][2]*trie.SlimTrie{}
	go func() {
		for i := 0; ; i++ {
			if atomic.LoadInt32(&churnActive) == 0 {
				time.Sleep(100 * time.Microsecond)
				continue
			}
			churnOnce(i, sets, pool)
			atomic.AddInt64(&churnIters, 1)
			runtime.Gosched()
		}
	}()
}
