//go:build asan

package main

func init() { buildMode = "asan" }
