package main

import "strings"

// genQueries builds Q(K): every key; proper prefixes; one-byte extensions with
// 0x00 and 0xff; one-bit and one-byte mutations; strings below the first and
// above the last key; the empty string; random strings over the same bytes;
// strings much longer than any key; all-00 and all-ff strings. Capped at max by
// seeded sampling that always keeps the keys themselves.
func genQueries(r *RNG, keys []string, max int) []string {
	seen := map[string]struct{}{}
	var must, extra []string
	addTo := func(dst *[]string, q string) {
		if _, ok := seen[q]; ok {
			return
		}
		seen[q] = struct{}{}
		*dst = append(*dst, q)
	}
	n := len(keys)
	// when the key set is large, derive mutations from a sample of keys
	stride := 1
	if n > 400 {
		stride = n / 400
	}
	maxLen := 0
	for _, k := range keys {
		if len(k) > maxLen {
			maxLen = len(k)
		}
	}
	for _, k := range keys {
		addTo(&must, k)
	}
	addTo(&must, "")
	for i := 0; i < n; i += stride {
		k := keys[i]
		// extensions
		addTo(&extra, k+"\x00")
		addTo(&extra, k+"\xff")
		addTo(&extra, k+"\x00\x00")
		// prefixes (all for short keys, sampled for long)
		if len(k) <= 24 {
			for j := 0; j < len(k); j++ {
				addTo(&extra, k[:j])
			}
		} else {
			for t := 0; t < 12; t++ {
				addTo(&extra, k[:r.Intn(len(k))])
			}
			addTo(&extra, k[:len(k)-1])
			addTo(&extra, k[:1])
		}
		if len(k) == 0 {
			continue
		}
		// one-bit mutations: last byte all bits, first byte all bits, random positions
		mutAt := func(pos int, bit uint) {
			b := []byte(k)
			b[pos] ^= 1 << bit
			addTo(&extra, string(b))
		}
		for bit := uint(0); bit < 8; bit++ {
			mutAt(len(k)-1, bit)
		}
		for t := 0; t < 6; t++ {
			mutAt(r.Intn(len(k)), uint(r.Intn(8)))
		}
		// one-byte mutations
		for t := 0; t < 4; t++ {
			b := []byte(k)
			pos := r.Intn(len(k))
			switch r.Intn(4) {
			case 0:
				b[pos] = 0
			case 1:
				b[pos] = 0xff
			case 2:
				b[pos]++
			default:
				b[pos]--
			}
			addTo(&extra, string(b))
		}
		// mutation at the branch position with the neighbour
		if i+1 < n {
			k2 := keys[i+1]
			j := 0
			for j < len(k) && j < len(k2) && k[j] == k2[j] {
				j++
			}
			if j < len(k) {
				b := []byte(k)
				b[j] ^= 0x10
				addTo(&extra, string(b))
				b[j] ^= 0x11
				addTo(&extra, string(b))
				addTo(&extra, k[:j])
				addTo(&extra, k[:j+1])
			}
			// a string strictly between the neighbours when one exists
			addTo(&extra, k+"\x00")
		}
	}
	if n > 0 {
		first, last := keys[0], keys[n-1]
		if len(first) > 0 {
			b := []byte(first)
			if b[len(b)-1] > 0 {
				b[len(b)-1]--
				addTo(&extra, string(b))
			}
			addTo(&extra, first[:len(first)-1])
		}
		addTo(&extra, last+"\x00")
		addTo(&extra, last+"\xff\xff")
		b := []byte(last)
		for j := len(b) - 1; j >= 0; j-- {
			if b[j] < 0xff {
				b[j]++
				addTo(&extra, string(b[:j+1]))
				break
			}
		}
	}
	for _, l := range []int{1, 2, 3, 7, 8, 9, 16, 33, maxLen, maxLen + 1, maxLen + 9, 2*maxLen + 70} {
		if l > 40000 {
			l = 40000
		}
		addTo(&extra, strings.Repeat("\x00", l))
		addTo(&extra, strings.Repeat("\xff", l))
	}
	// random strings over the bytes that occur in keys
	pool := []byte{}
	{
		has := [256]bool{}
		for i := 0; i < n; i += stride {
			for j := 0; j < len(keys[i]) && j < 64; j++ {
				if !has[keys[i][j]] {
					has[keys[i][j]] = true
					pool = append(pool, keys[i][j])
				}
			}
		}
		if len(pool) == 0 {
			pool = []byte{0, 'a', 0xff}
		}
	}
	for t := 0; t < 60; t++ {
		l := r.Range(0, maxLen+2)
		if l > 64 {
			l = r.Range(0, 64)
		}
		addTo(&extra, randOver(r, pool, l))
		addTo(&extra, string(r.Bytes(r.Range(1, 10))))
	}
	// much longer than any key: a key followed by a long tail
	if n > 0 {
		k := keys[r.Intn(n)]
		addTo(&extra, k+strings.Repeat("z", 300))
		addTo(&extra, k+string(r.Bytes(1000)))
	}
	if max > 0 && len(must)+len(extra) > max {
		room := max - len(must)
		if room < 200 {
			room = 200
		}
		if room < len(extra) {
			p := r.Perm(len(extra))
			sel := make([]string, 0, room)
			for _, i := range p[:room] {
				sel = append(sel, extra[i])
			}
			extra = sel
		}
	}
	return append(must, extra...)
}
