package main

import (
	"bufio"
	"encoding/json"
	"fmt"
	"io/ioutil"
	"os"
	"os/exec"
	"path/filepath"
	"runtime"
	"runtime/debug"
	"sort"
	"strconv"
	"strings"
	"sync"
	"sync/atomic"
	"syscall"
	"time"
)

// verifRoot is the checkout the harness belongs to (bin/check exports it).
var verifRoot = func() string {
	if v := os.Getenv("VERIF_ROOT"); v != "" {
		return v
	}
	return "/verif"
}()

// CheckDef describes the monitor set of one property.
type CheckDef struct {
	ID    string
	Level string // evidence level
	Rule  string
	// NumCases is the size of the case list for a tier. Pure function.
	NumCases func(tier string) int
	// Run executes case idx and reports to ctx. Must be deterministic in
	// (ctx.Seed, ctx.Tier, idx).
	Run func(ctx *Ctx, idx int)
	// MinNontrivial is the hard gate: fewer distinct non-trivial cases => exit 2.
	MinNontrivial func(tier string) int
	// Gates returns the list of missed observation gates (soft: reported,
	// verdict inconclusive, exit 0).
	Gates func(tier string, m *Merged) []string
	// Race: the check runs in the -race build of the harness.
	Race bool
	// HangIsViolation: a case exceeding HangSeconds counts as a violation
	// (C10, C08; C06 and C07, whose statements promise that a load returns -
	// with the index or with an error); otherwise it is inconclusive.
	HangIsViolation bool
	HangSeconds     int
	// MemoryIsViolation: a case that drives the worker's heap past the
	// ceiling counts as a violation (C08, C10: a call must return or fail).
	MemoryIsViolation bool
	Assumptions       []string
	// Pre runs once in the supervisor before the workers (cross validation
	// etc.). A non-nil error makes the run inconclusive (exit 2).
	Pre func(tier string, seed uint64) (map[string]interface{}, error)
	// RaceCases: number of leading cases that are additionally run in the
	// -race build of the harness (checkptr, different frame layout).
	RaceCases func(tier string) int
	// Workers caps the number of worker processes (0 = default).
	Workers int
	// Exhaustive is set when the tier enumerates a finite space completely.
	Exhaustive func(tier string) bool
	// Finish lets a check add derived keys to the coverage object.
	Finish func(tier string, m *Merged, cov map[string]interface{})
}

// Violation is one oracle hit.
type Violation struct {
	Prop        string                 `json:"property"`
	Fingerprint string                 `json:"fingerprint"`
	CaseIdx     int                    `json:"case_idx"`
	Detail      map[string]interface{} `json:"detail"`
}

// Ctx collects what the monitors of one worker observed.
type Ctx struct {
	Prop    string
	Tier    string
	Seed    uint64
	Verbose bool
	// BuildMode is "plain" or "race".
	BuildMode string

	mu        sync.Mutex
	curCase   int
	counters  map[string]int64
	distinct  map[uint64]struct{}
	samples   []interface{}
	viols     []Violation
	nviol     int64
	violByFP  map[string]int
	casesDone int64
	journal   *os.File
	caseStart int64 // unix nano, atomic
}

func newCtx(prop, tier string, seed uint64) *Ctx {
	return &Ctx{Prop: prop, Tier: tier, Seed: seed,
		counters: map[string]int64{}, distinct: map[uint64]struct{}{},
		violByFP: map[string]int{}, BuildMode: buildMode}
}

// Count adds n to a named observation counter.
func (c *Ctx) Count(name string, n int64) {
	c.mu.Lock()
	c.counters[name] += n
	c.mu.Unlock()
}

// Max records the maximum of a named observation.
func (c *Ctx) Max(name string, v int64) {
	c.mu.Lock()
	if v > c.counters["max:"+name] {
		c.counters["max:"+name] = v
	}
	c.mu.Unlock()
}

// Beat records progress inside a long case: the watchdog measures the time
// since the last beat, so "no progress" means one bounded step (a batch of
// lookups, one scan, one load) did not come back.
func (c *Ctx) Beat() {
	if atomic.LoadInt64(&c.caseStart) != 0 {
		atomic.StoreInt64(&c.caseStart, time.Now().UnixNano())
	}
}

// Eval counts one executed case (a work item may hold many).
func (c *Ctx) Eval() { c.Count("evaluations", 1) }

// Nontrivial records a distinct non-trivial case hash.
func (c *Ctx) Nontrivial(h uint64) {
	c.mu.Lock()
	c.distinct[h] = struct{}{}
	c.mu.Unlock()
}

// Sample keeps a few actual cases for the evidence file.
func (c *Ctx) Sample(v interface{}) {
	c.mu.Lock()
	if len(c.samples) < 3 {
		c.samples = append(c.samples, v)
	}
	c.mu.Unlock()
}

func (c *Ctx) WantSample() bool {
	c.mu.Lock()
	defer c.mu.Unlock()
	return len(c.samples) < 3
}

// Violate records an oracle hit. fp is the structural fingerprint
// "<prop>/<clause>/<discriminator>".
func (c *Ctx) Violate(fp string, detail map[string]interface{}) {
	c.mu.Lock()
	defer c.mu.Unlock()
	c.nviol++
	c.violByFP[fp]++
	// keep at most 3 witnesses per fingerprint and 40 overall per worker
	if c.violByFP[fp] <= 3 && len(c.viols) < 40 {
		c.viols = append(c.viols, Violation{Prop: c.Prop, Fingerprint: fp, CaseIdx: c.curCase, Detail: detail})
	}
	if c.Verbose {
		b, _ := json.Marshal(detail)
		fmt.Printf("  violation %s case=%d %s\n", fp, c.curCase, truncate(string(b), 2000))
	}
}

func truncate(s string, n int) string {
	if len(s) <= n {
		return s
	}
	return s[:n] + "..."
}

// Note sets the current sub-step in the journal (used by long cases so that a
// fatal death can be attributed).
func (c *Ctx) Note(s string) {
	if c.journal != nil {
		fmt.Fprintf(c.journal, "note %d %s\n", c.curCase, s)
	}
}

// WorkerResult is what a worker process hands to the supervisor.
type WorkerResult struct {
	Counters  map[string]int64 `json:"counters"`
	Distinct  []string         `json:"distinct"`
	Samples   []interface{}    `json:"samples"`
	Viols     []Violation      `json:"violations"`
	NViol     int64            `json:"nviol"`
	ViolByFP  map[string]int   `json:"viol_by_fp"`
	CasesDone int64            `json:"cases_done"`
	Hang      *int             `json:"hang,omitempty"`
}

// Merged is the union over workers.
type Merged struct {
	Counters  map[string]int64
	Distinct  map[string]struct{}
	Samples   []interface{}
	Viols     []Violation
	NViol     int64
	ViolByFP  map[string]int
	CasesDone int64
	Deaths    []Violation
	Infra     []string
}

func (m *Merged) C(name string) int64 { return m.Counters[name] }

var buildMode = "plain"

// memCeiling per worker process: far above what any case needs (< 1 GiB).
const memCeiling = 3 << 30

// ---- worker ---------------------------------------------------------------

func workDir(prop, tier string, seed uint64) string {
	return workDirMode(prop, tier, seed, buildMode)
}

func workDirMode(prop, tier string, seed uint64, mode string) string {
	return filepath.Join(verifRoot, ".work", fmt.Sprintf("%s-%s-%d-%s", prop, tier, seed, mode))
}

func runWorker(def *CheckDef, tier string, seed uint64, w, nw, startAfter int, gen int, limit int, dir string) int {
	debug.SetTraceback("all")
	debug.SetPanicOnFault(true) // per goroutine: cases run on this one
	if dir == "" {
		dir = workDir(def.ID, tier, seed)
	}
	ctx := newCtx(def.ID, tier, seed)
	jf, err := os.OpenFile(filepath.Join(dir, fmt.Sprintf("w%d.journal", w)), os.O_CREATE|os.O_WRONLY|os.O_APPEND, 0644)
	if err != nil {
		fmt.Fprintln(os.Stderr, "journal:", err)
		return 3
	}
	ctx.journal = jf
	n := def.NumCases(tier)
	if limit >= 0 && limit < n {
		n = limit
	}
	hangSec := def.HangSeconds
	if hangSec == 0 {
		hangSec = 300
	}
	if buildMode == "race" || buildMode == "asan" {
		hangSec *= 4
	}
	var cur int64 = -1
	resFile := filepath.Join(dir, fmt.Sprintf("w%d.g%d.result.json", w, gen))
	writeResult := func(hang *int) {
		ctx.mu.Lock()
		res := WorkerResult{Counters: ctx.counters, Samples: ctx.samples, Viols: ctx.viols, NViol: ctx.nviol,
			ViolByFP: ctx.violByFP, CasesDone: ctx.casesDone, Hang: hang}
		for h := range ctx.distinct {
			res.Distinct = append(res.Distinct, strconv.FormatUint(h, 16))
		}
		b, _ := json.Marshal(res)
		ctx.mu.Unlock()
		ioutil.WriteFile(resFile+".tmp", b, 0644)
		os.Rename(resFile+".tmp", resFile)
	}
	// watchdog: a case that makes no progress for hangSec seconds, or a worker
	// whose heap passes the ceiling (runaway allocation must not take the
	// machine, and with it every other monitor, down).
	go func() {
		var ms runtime.MemStats
		for {
			time.Sleep(time.Second)
			runtime.ReadMemStats(&ms)
			if ms.HeapAlloc > memCeiling {
				c := int(atomic.LoadInt64(&cur))
				fmt.Fprintf(os.Stderr, "MEMORY: heap %d MiB while running case %d\n", ms.HeapAlloc>>20, c)
				fmt.Fprintf(jf, "memory %d\n", c)
				os.Exit(5)
			}
			st := atomic.LoadInt64(&ctx.caseStart)
			if st != 0 && time.Since(time.Unix(0, st)) > time.Duration(hangSec)*time.Second {
				c := int(atomic.LoadInt64(&cur))
				fmt.Fprintf(os.Stderr, "WATCHDOG: case %d exceeded %ds\n", c, hangSec)
				buf := make([]byte, 1<<20)
				buf = buf[:runtime.Stack(buf, true)]
				os.Stderr.Write(buf)
				writeResult(&c)
				os.Exit(4)
			}
		}
	}()
	churn := os.Getenv("VERIF_CHURN") != "0"
	if churn {
		startChurn()
	}
	for idx := w; idx < n; idx += nw {
		if idx <= startAfter {
			continue
		}
		// every other case of this worker runs in company (churn.go)
		if churn && (idx/nw)%2 == 0 {
			atomic.StoreInt32(&churnActive, 1)
			ctx.Count("cases_run_with_background_churn", 1)
		} else {
			atomic.StoreInt32(&churnActive, 0)
		}
		atomic.StoreInt64(&cur, int64(idx))
		fmt.Fprintf(jf, "case %d\n", idx)
		ctx.curCase = idx
		setOptSpelling(idx)
		ctx.Count(fmt.Sprintf("cases_by_option_spelling:%d", idx%3), 1)
		atomic.StoreInt64(&ctx.caseStart, time.Now().UnixNano())
		tc := time.Now()
		runCaseRecovered(def, ctx, idx)
		if ms := time.Since(tc).Milliseconds(); ms >= 200 {
			fmt.Fprintf(jf, "slow %d %dms\n", idx, ms)
		}
		atomic.StoreInt64(&ctx.caseStart, 0)
		ctx.casesDone++
	}
	atomic.StoreInt32(&churnActive, 0)
	ctx.Count("churn_iterations", atomic.LoadInt64(&churnIters))
	if p := atomic.LoadInt64(&churnPanics); p > 0 {
		ctx.Count("churn_panics_swallowed", p)
	}
	fmt.Fprintf(jf, "done\n")
	writeResult(nil)
	return 0
}

// runCaseRecovered: a panic that escapes a monitor's own recover is a harness
// defect or an unexpected panic in the library; both are reported against the
// case (fingerprint .../escaped-panic) so nothing is lost.
func runCaseRecovered(def *CheckDef, ctx *Ctx, idx int) {
	defer func() {
		if r := recover(); r != nil {
			ctx.Violate(def.ID+"/escaped-panic", map[string]interface{}{
				"panic": fmt.Sprint(r), "stack": truncate(string(debug.Stack()), 4000)})
		}
	}()
	def.Run(ctx, idx)
}

// ---- supervisor -----------------------------------------------------------

type KnownFinding struct {
	Status      string `json:"status"` // "open" | "fixed"
	Property    string `json:"property"`
	Fingerprint string `json:"fingerprint"`
	Commit      string `json:"commit,omitempty"`
	What        string `json:"what"`
}

func loadKnown() []KnownFinding {
	var kf struct {
		Findings []KnownFinding `json:"findings"`
	}
	b, err := ioutil.ReadFile(filepath.Join(verifRoot, "known_findings.json"))
	if err != nil {
		return nil
	}
	json.Unmarshal(b, &kf)
	return kf.Findings
}

func superviseCheck(def *CheckDef, tier string, seed uint64, exe string) int {
	t0 := time.Now()
	merged := &Merged{Counters: map[string]int64{}, Distinct: map[string]struct{}{}, ViolByFP: map[string]int{}}
	var preInfo map[string]interface{}
	if def.Pre != nil {
		var err error
		preInfo, err = def.Pre(tier, seed)
		if err != nil {
			fmt.Printf("INCONCLUSIVE property=%s reason=pre-check failed: %v\n", def.ID, err)
			writeEvidence(def, tier, seed, merged, preInfo, nil, "inconclusive", []string{"pre: " + err.Error()}, time.Since(t0).Seconds())
			return 2
		}
	}
	raceExe := strings.TrimSuffix(exe, ".race") + ".race"
	plainExe := strings.TrimSuffix(exe, ".race")
	modes := []string{}
	if def.Race {
		runPass(def, tier, seed, raceExe, "race", -1, merged)
		modes = append(modes, "race")
	} else {
		runPass(def, tier, seed, plainExe, "plain", -1, merged)
		modes = append(modes, "plain")
		if def.RaceCases != nil {
			if rc := def.RaceCases(tier); rc > 0 {
				if _, err := os.Stat(raceExe); err == nil {
					before := merged.CasesDone
					runPass(def, tier, seed, raceExe, "race", rc, merged)
					merged.Counters["race_pass_cases"] = merged.CasesDone - before
					modes = append(modes, "race")
				} else {
					merged.Infra = append(merged.Infra, "race build of the harness is missing")
				}
			}
		}
	}
	// AddressSanitizer pass (thorough tier): the same leading cases as the race
	// pass in a -asan build. Go's allocator puts poisoned red zones around heap
	// objects there and the compiler instruments every load and store, also
	// those made through unsafe pointers: an over-read behind a leaf buffer, a
	// key or a bitmap aborts the worker with a report, which is attributed to
	// the journalled case.
	asanExe := plainExe + ".asan"
	if !def.Race && def.RaceCases != nil && tier == "thorough" {
		if rc := def.RaceCases(tier); rc > 0 {
			if _, err := os.Stat(asanExe); err == nil {
				before := merged.CasesDone
				runPass(def, tier, seed, asanExe, "asan", rc, merged, "ASAN_OPTIONS=halt_on_error=1:abort_on_error=0:detect_leaks=0:exitcode=66")
				merged.Counters["asan_pass_cases"] = merged.CasesDone - before
				modes = append(modes, "asan")
			} else {
				merged.Counters["asan_build_missing"] = 1
			}
		}
	}
	// evidence only: statement coverage of /repo reached by a quick-sized slice
	// of the case list, from a -cover build (thorough tier, plain-mode checks)
	coverExe := plainExe + ".cover"
	if _, err := os.Stat(coverExe); err == nil && tier == "thorough" && !def.Race {
		covDir := filepath.Join(verifRoot, ".work", fmt.Sprintf("%s-cov-%d", def.ID, seed))
		os.RemoveAll(covDir)
		os.MkdirAll(covDir, 0755)
		scratch := &Merged{Counters: map[string]int64{}, Distinct: map[string]struct{}{}, ViolByFP: map[string]int{}}
		lim := def.NumCases("quick")
		if lim > def.NumCases(tier) {
			lim = def.NumCases(tier)
		}
		runPass(def, tier, seed, coverExe, "cover", lim, scratch, "GOCOVERDIR="+covDir)
		if preInfo == nil {
			preInfo = map[string]interface{}{}
		}
		preInfo["statement_coverage"] = coverageOf(covDir)
		preInfo["statement_coverage_note"] = fmt.Sprintf("measured with go build -cover -coverpkg=all on the first %d work items of this tier; evidence only, never a verdict", lim)
		os.RemoveAll(covDir)
		modes = append(modes, "cover(evidence only)")
	}
	passModes = modes
	return conclude(def, tier, seed, merged, preInfo, time.Since(t0).Seconds())
}

var passModes []string

func runPass(def *CheckDef, tier string, seed uint64, exe, mode string, limit int, merged *Merged, extraEnv ...string) {
	dir := workDirMode(def.ID, tier, seed, mode)
	os.RemoveAll(dir)
	os.MkdirAll(dir, 0755)
	defer func() {
		if os.Getenv("VERIF_KEEP_WORK") == "" {
			os.RemoveAll(dir)
		}
	}()
	nw := runtime.NumCPU()
	if v := os.Getenv("VERIF_WORKERS"); v != "" {
		if x, err := strconv.Atoi(v); err == nil && x > 0 {
			nw = x
		}
	}
	if def.Workers > 0 && def.Workers < nw {
		nw = def.Workers
	}
	n := def.NumCases(tier)
	if limit >= 0 && limit < n {
		n = limit
	}
	if nw > n {
		nw = n
	}
	if nw < 1 {
		nw = 1
	}

	var mu sync.Mutex
	var wg sync.WaitGroup
	for w := 0; w < nw; w++ {
		wg.Add(1)
		go func(w int) {
			defer wg.Done()
			startAfter := -1
			hangs := 0
			for gen := 0; gen < 80; gen++ {
				if hangs >= 3 {
					// three cases of this worker made no progress for the whole
					// watchdog period: the verdict (violated where the statement
					// says the call returns, inconclusive elsewhere) stands, and
					// running the rest of its share would only add hours
					mu.Lock()
					merged.Counters["workers_stopped_after_three_hangs"]++
					mu.Unlock()
					return
				}
				errFile := filepath.Join(dir, fmt.Sprintf("w%d.g%d.stderr", w, gen))
				ef, _ := os.Create(errFile)
				cmd := exec.Command(exe, "worker", def.ID, "--tier", tier, "--seed", strconv.FormatUint(seed, 10),
					"--w", strconv.Itoa(w), "--nw", strconv.Itoa(nw), "--start-after", strconv.Itoa(startAfter),
					"--gen", strconv.Itoa(gen), "--limit", strconv.Itoa(limit), "--dir", dir)
				cmd.Stdout = ef
				cmd.Stderr = ef
				cmd.Env = append(os.Environ(), "GORACE=halt_on_error=0 exitcode=0 log_path="+filepath.Join(dir, fmt.Sprintf("race.w%d.g%d", w, gen)))
				cmd.Env = append(cmd.Env, extraEnv...)
				err := cmd.Run()
				ef.Close()
				resFile := filepath.Join(dir, fmt.Sprintf("w%d.g%d.result.json", w, gen))
				var res WorkerResult
				hasRes := false
				if b, rerr := ioutil.ReadFile(resFile); rerr == nil {
					if json.Unmarshal(b, &res) == nil {
						hasRes = true
					}
				}
				mu.Lock()
				if hasRes {
					mergeResult(merged, &res)
				}
				mu.Unlock()
				if err == nil && hasRes && res.Hang == nil {
					return
				}
				// The worker died or hung. Attribute to the journalled case.
				last, note := lastJournalCase(filepath.Join(dir, fmt.Sprintf("w%d.journal", w)))
				tail := tailFile(errFile, 6000)
				mu.Lock()
				if hasRes && res.Hang != nil {
					hangs++
					v := Violation{Prop: def.ID, Fingerprint: def.ID + "/hang", CaseIdx: *res.Hang,
						Detail: map[string]interface{}{"what": "case made no progress within the watchdog limit", "note": note, "stderr_tail": tail, "build_mode": mode}}
					if def.HangIsViolation {
						merged.Deaths = append(merged.Deaths, v)
					} else {
						merged.Infra = append(merged.Infra, fmt.Sprintf("watchdog fired on case %d (worker %d, %s)", *res.Hang, w, mode))
					}
					last = *res.Hang
				} else if last >= 0 {
					fp := def.ID + "/worker-death"
					if strings.Contains(tail, "AddressSanitizer") {
						fp = def.ID + "/asan-report"
					}
					if isOOM(err, tail) && def.MemoryIsViolation {
						merged.Deaths = append(merged.Deaths, Violation{Prop: def.ID, Fingerprint: def.ID + "/memory-blowup", CaseIdx: last,
							Detail: map[string]interface{}{"what": "the worker's heap passed the 3 GiB ceiling while running this case (a call that neither returns nor fails)",
								"note": note, "stderr_tail": truncate(tail, 1500), "build_mode": mode}})
					} else if isOOM(err, tail) {
						merged.Infra = append(merged.Infra, fmt.Sprintf("worker %d killed (memory) at case %d", w, last))
					} else {
						merged.Deaths = append(merged.Deaths, Violation{Prop: def.ID, Fingerprint: fp, CaseIdx: last,
							Detail: map[string]interface{}{"what": "worker process died while running this case (unrecoverable runtime error)",
								"exit": fmt.Sprint(err), "note": note, "stderr_tail": tail, "build_mode": mode}})
					}
				} else {
					merged.Infra = append(merged.Infra, fmt.Sprintf("worker %d (%s) failed before any case: %v: %s", w, mode, err, truncate(tail, 500)))
					mu.Unlock()
					return
				}
				mu.Unlock()
				startAfter = last
			}
			mu.Lock()
			merged.Infra = append(merged.Infra, fmt.Sprintf("worker %d restarted too often", w))
			mu.Unlock()
		}(w)
	}
	wg.Wait()

	// race reports
	raceReports := collectRaceReports(dir)
	if len(raceReports) > 0 {
		merged.Counters["race_reports"] += int64(len(raceReports))
		own, foreign := 0, 0
		for _, rr := range raceReports {
			if strings.Contains(rr, "openacid/slim") || strings.Contains(rr, "openacid/low") || strings.Contains(rr, "golang/protobuf") || strings.Contains(rr, "/repo/") {
				own++
				if own <= 3 {
					merged.Deaths = append(merged.Deaths, Violation{Prop: def.ID, Fingerprint: def.ID + "/data-race", CaseIdx: -1,
						Detail: map[string]interface{}{"report": truncate(rr, 6000)}})
				}
			} else {
				foreign++
			}
		}
		merged.Counters["race_reports_in_slim"] += int64(own)
		if foreign > 0 {
			merged.Infra = append(merged.Infra, fmt.Sprintf("%d race reports with harness-only frames: %s", foreign, truncate(raceReports[0], 1500)))
		}
	}
}

// coverageOf turns a GOCOVERDIR into per-file statement coverage of the
// openacid/slim packages.
func coverageOf(covDir string) map[string]interface{} {
	prof := filepath.Join(covDir, "profile.txt")
	cmd := exec.Command("go", "tool", "covdata", "textfmt", "-i="+covDir, "-o="+prof)
	if out, err := cmd.CombinedOutput(); err != nil {
		return map[string]interface{}{"error": fmt.Sprint(err, " ", truncate(string(out), 300))}
	}
	f, err := os.Open(prof)
	if err != nil {
		return map[string]interface{}{"error": err.Error()}
	}
	defer f.Close()
	type blk struct{ n, hit int }
	blocks := map[string]*blk{} // file:range -> stmts, hit
	sc := bufio.NewScanner(f)
	sc.Buffer(make([]byte, 1<<20), 1<<20)
	for sc.Scan() {
		ln := sc.Text()
		if !strings.HasPrefix(ln, "github.com/openacid/slim/") {
			continue
		}
		parts := strings.Fields(ln)
		if len(parts) != 3 {
			continue
		}
		n, _ := strconv.Atoi(parts[1])
		c, _ := strconv.Atoi(parts[2])
		b := blocks[parts[0]]
		if b == nil {
			b = &blk{n: n}
			blocks[parts[0]] = b
		}
		if c > 0 {
			b.hit = 1
		}
	}
	type agg struct{ total, covered int }
	files := map[string]*agg{}
	for k, b := range blocks {
		file := strings.TrimPrefix(k[:strings.LastIndex(k, ":")], "github.com/openacid/slim/")
		if strings.HasSuffix(file, ".pb.go") || strings.Contains(file, "/benchmark/") || strings.Contains(file, "/report/") || strings.HasPrefix(file, "tools/") || strings.HasPrefix(file, "benchhelper/") {
			continue
		}
		a := files[file]
		if a == nil {
			a = &agg{}
			files[file] = a
		}
		a.total += b.n
		if b.hit > 0 {
			a.covered += b.n
		}
	}
	out := map[string]interface{}{}
	for f, a := range files {
		if a.covered == 0 {
			continue
		}
		out[f] = fmt.Sprintf("%d/%d statements (%.0f%%)", a.covered, a.total, 100*float64(a.covered)/float64(a.total))
	}
	return out
}

func isOOM(err error, tail string) bool {
	if strings.Contains(tail, "out of memory") || strings.Contains(tail, "cannot allocate memory") || strings.Contains(tail, "MEMORY: heap") {
		return true
	}
	if ee, ok := err.(*exec.ExitError); ok {
		if ws, ok := ee.Sys().(syscall.WaitStatus); ok && ws.Signaled() && ws.Signal() == syscall.SIGKILL {
			return true
		}
	}
	return false
}

func mergeResult(m *Merged, r *WorkerResult) {
	for k, v := range r.Counters {
		if strings.HasPrefix(k, "max:") {
			if v > m.Counters[k] {
				m.Counters[k] = v
			}
		} else {
			m.Counters[k] += v
		}
	}
	for _, h := range r.Distinct {
		m.Distinct[h] = struct{}{}
	}
	for _, s := range r.Samples {
		if len(m.Samples) < 4 {
			m.Samples = append(m.Samples, s)
		}
	}
	m.Viols = append(m.Viols, r.Viols...)
	m.NViol += r.NViol
	for k, v := range r.ViolByFP {
		m.ViolByFP[k] += v
	}
	m.CasesDone += r.CasesDone
}

func lastJournalCase(path string) (int, string) {
	f, err := os.Open(path)
	if err != nil {
		return -1, ""
	}
	defer f.Close()
	last := -1
	note := ""
	sc := bufio.NewScanner(f)
	sc.Buffer(make([]byte, 1<<20), 1<<20)
	for sc.Scan() {
		ln := sc.Text()
		if strings.HasPrefix(ln, "case ") {
			if v, err := strconv.Atoi(ln[5:]); err == nil {
				last = v
				note = ""
			}
		} else if strings.HasPrefix(ln, "note ") {
			note = ln
		}
	}
	return last, note
}

func tailFile(path string, n int) string {
	b, err := ioutil.ReadFile(path)
	if err != nil {
		return ""
	}
	// prefer the beginning of the fatal message
	s := string(b)
	if i := strings.Index(s, "ERROR: AddressSanitizer"); i >= 0 {
		s = s[i:]
	} else if i := strings.Index(s, "fatal error:"); i >= 0 {
		s = s[i:]
	} else if i := strings.Index(s, "panic:"); i >= 0 {
		s = s[i:]
	}
	if len(s) > n {
		s = s[:n]
	}
	return s
}

func collectRaceReports(dir string) []string {
	files, _ := filepath.Glob(filepath.Join(dir, "race.*"))
	var out []string
	for _, f := range files {
		b, err := ioutil.ReadFile(f)
		if err != nil {
			continue
		}
		parts := strings.Split(string(b), "==================")
		for _, p := range parts {
			if strings.Contains(p, "WARNING: DATA RACE") {
				out = append(out, strings.TrimSpace(p))
			}
		}
	}
	return out
}

func conclude(def *CheckDef, tier string, seed uint64, m *Merged, preInfo map[string]interface{}, wall float64) int {
	known := loadKnown()
	openFP := map[string]KnownFinding{}
	for _, k := range known {
		if k.Status == "open" && k.Property == def.ID {
			openFP[k.Fingerprint] = k
		}
	}
	all := append([]Violation{}, m.Viols...)
	all = append(all, m.Deaths...)
	sort.SliceStable(all, func(i, j int) bool {
		if all[i].Fingerprint != all[j].Fingerprint {
			return all[i].Fingerprint < all[j].Fingerprint
		}
		return all[i].CaseIdx < all[j].CaseIdx
	})
	os.MkdirAll(filepath.Join(verifRoot, "replays"), 0755)
	newViol := 0
	printedKnown := map[string]bool{}
	printedFP := map[string]int{}
	for _, v := range all {
		if k, ok := openFP[v.Fingerprint]; ok {
			if !printedKnown[v.Fingerprint] {
				fmt.Printf("KNOWN-FINDING: property=%s %s %s\n", def.ID, v.Fingerprint, k.What)
				printedKnown[v.Fingerprint] = true
			}
			continue
		}
		newViol++
		printedFP[v.Fingerprint]++
		if printedFP[v.Fingerprint] > 2 {
			continue
		}
		path := filepath.Join(verifRoot, "replays", fmt.Sprintf("%s-%s-%d-%06d-%s.json", def.ID, tier, seed, v.CaseIdx+1, sanitize(v.Fingerprint)))
		rep := map[string]interface{}{"property": def.ID, "tier": tier, "seed": seed, "case_idx": v.CaseIdx,
			"fingerprint": v.Fingerprint, "build_mode": buildMode, "detail": v.Detail}
		b, _ := json.MarshalIndent(rep, "", " ")
		ioutil.WriteFile(path, b, 0644)
		fmt.Printf("VIOLATION property=%s replay=%s\n", def.ID, path)
		fmt.Printf("  fingerprint=%s case=%d occurrences=%d\n", v.Fingerprint, v.CaseIdx, m.ViolByFP[v.Fingerprint])
	}
	// known findings that are listed open but did not show: say nothing.

	var missed []string
	if def.Gates != nil {
		missed = def.Gates(tier, m)
	}
	verdict := "held"
	code := 0
	minNT := 2
	if def.MinNontrivial != nil {
		minNT = def.MinNontrivial(tier)
	}
	if newViol > 0 {
		verdict = "violated"
		code = 1
	} else if len(m.Infra) > 0 {
		verdict = "inconclusive"
		code = 2
		for _, s := range m.Infra {
			fmt.Printf("INCONCLUSIVE property=%s reason=%s\n", def.ID, s)
		}
	} else if len(m.Distinct) < minNT {
		verdict = "inconclusive"
		code = 2
		fmt.Printf("INCONCLUSIVE property=%s reason=only %d distinct non-trivial cases executed (minimum %d)\n", def.ID, len(m.Distinct), minNT)
	} else if len(missed) > 0 {
		verdict = "inconclusive"
		for _, g := range missed {
			fmt.Printf("INCONCLUSIVE property=%s gate=%s\n", def.ID, g)
		}
	}
	writeEvidence(def, tier, seed, m, preInfo, missed, verdict, m.Infra, wall)
	fmt.Printf("%s %s tier=%s seed=%d mode=%s cases=%d nontrivial=%d violations=%d wall=%.1fs\n",
		strings.ToUpper(verdict), def.ID, tier, seed, strings.Join(passModes, "+"), m.CasesDone, len(m.Distinct), newViol, wall)
	return code
}

func sanitize(s string) string {
	r := strings.NewReplacer("/", "_", " ", "_", ":", "_")
	return r.Replace(s)
}

func writeEvidence(def *CheckDef, tier string, seed uint64, m *Merged, preInfo map[string]interface{}, missed []string, verdict string, infra []string, wall float64) {
	cov := map[string]interface{}{}
	// evaluations = (key list, value list) style cases executed; the case list
	// of a check may pack many of them into one work item (exhaustive chunks)
	if ev := m.Counters["evaluations"]; ev > 0 {
		cov["evaluations"] = ev
		cov["work_items"] = m.CasesDone
	} else {
		cov["evaluations"] = m.CasesDone
	}
	cov["distinct_nontrivial"] = len(m.Distinct)
	cov["rule"] = def.Rule
	samples := m.Samples
	if samples == nil {
		samples = []interface{}{}
	}
	cov["samples"] = samples
	if def.Exhaustive != nil {
		cov["exhaustive"] = def.Exhaustive(tier)
	} else {
		cov["exhaustive"] = false
	}
	obs := map[string]int64{}
	for k, v := range m.Counters {
		obs[k] = v
	}
	cov["observed"] = obs
	cov["build_modes"] = passModes
	if missed == nil {
		missed = []string{}
	}
	cov["gates_missed"] = missed
	for k, v := range preInfo {
		cov[k] = v
	}
	if def.Finish != nil {
		def.Finish(tier, m, cov)
	}
	ev := map[string]interface{}{
		"property_id": def.ID,
		"tier":        tier,
		"seed":        int64(seed),
		"level":       def.Level,
		"verdict":     verdict,
		"coverage":    cov,
		"assumptions": def.Assumptions,
		"wall_s":      wall,
		"violations":  int(m.NViol) + len(m.Deaths),
	}
	if len(infra) > 0 {
		ev["infrastructure"] = infra
	}
	b, _ := json.MarshalIndent(ev, "", " ")
	os.MkdirAll(filepath.Join(verifRoot, "evidence", "thorough"), 0755)
	ioutil.WriteFile(filepath.Join(verifRoot, "evidence", def.ID+".json"), b, 0644)
	if tier == "thorough" {
		// the registered evidence file always reflects the latest run; the
		// deepest exploration is also kept next to it
		ioutil.WriteFile(filepath.Join(verifRoot, "evidence", "thorough", def.ID+".json"), b, 0644)
	}
}
