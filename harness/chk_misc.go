package main

import (
	"fmt"
	"regexp"
	"sort"
	"strings"

	"github.com/golang/protobuf/proto"
	"github.com/openacid/slim/encode"
	"github.com/openacid/slim/index"
	"github.com/openacid/slim/trie"
)

// ---------------------------------------------------------------------------
// C12 — SlimIndex plus a key-verifying reader is an exact map
// ---------------------------------------------------------------------------

type record struct {
	key, val string
}

// verifyingReader returns a record only if the key stored at (or within the
// block at) the offset equals the query.
type verifyingReader struct {
	blocks map[int64][]record
	reads  int64
}

func (v *verifyingReader) Read(offset int64, key string) (string, bool) {
	v.reads++
	for _, r := range v.blocks[offset] {
		if r.key == key {
			return r.val, true
		}
	}
	return "", false
}

type c12Surv struct {
	si     *index.SlimIndex
	sparse bool
	keys   []string
	want   []string
}

// one survivor per worker context (cases of a worker run sequentially)
var c12Survivor = map[*Ctx]*c12Surv{}

func runC12(ctx *Ctx, idx int) {
	r := NewRNG(caseSeed(ctx.Seed, "C12", ctx.Tier, idx))
	scale := 0
	if ctx.Tier == "thorough" {
		scale = 1
	}
	var ks KeySet
	dir := directedKeySets()
	overLimit := false
	qmax := 2500
	nBig := 3
	if ctx.Tier == "thorough" {
		nBig = 12
	}
	switch j := idx - 2*len(dir); {
	case j < 0:
		ks = dir[idx/2] // each directed set once dense (even idx), once sparse (odd idx)
	case j < 8:
		// record keys longer than the documented 16 KiB, sharing runs of 32 KiB
		// and more: the builder may refuse them (C08 owns that boundary), but an
		// index it does hand out is an index
		overLimit = true
		qmax = 200
		var k []string
		switch j / 2 {
		case 0:
			for i := 0; i < 12; i++ {
				k = append(k, rep("x", 40000)+string([]byte{byte(i*21 + 1)})+"t")
			}
		case 1:
			for i := 0; i < 26; i++ {
				k = append(k, rep("\x00", 33000)+string([]byte{byte('a' + i)}))
			}
		case 2:
			k = []string{"a" + rep("y", 17000) + "1", "a" + rep("y", 17000) + "2", "b"}
		case 3:
			for i := 0; i < 12; i++ {
				k = append(k, string([]byte{byte(i + 3)}), "\x40"+rep("\xfe", 36000)+string([]byte{byte(i*20 + 2)}))
			}
		}
		ks = KeySet{"over-limit-run", sortUniq(k)}
	case j < 8+nBig:
		// record sets big enough for short-node tables of 9 and 10 bits and for
		// more than 65535 nodes
		if (j-8)%8 == 2 {
			// more than 2^18 records in one index
			seen := make(map[string]bool, 300000)
			k := make([]string, 0, 290000)
			for len(k) < 280000 {
				x := string(r.Bytes(r.Range(5, 7)))
				if !seen[x] {
					seen[x] = true
					k = append(k, x)
				}
			}
			sort.Strings(k)
			ks = KeySet{"big:uniform-280k", k}
		} else {
			ks = genBig(r, []int{5, 4, 0, 2, 1, 3, 9, 16}[(j-8)%8])
		}
		qmax = 600
	default:
		ks = genKeySet(r, scale)
	}
	keys := ks.Keys
	n := len(keys)
	ctx.Eval()
	ctx.Count("family:"+ks.Family, 1)
	if n >= 2 {
		ctx.Nontrivial(mix(hashStr(keys...), uint64(idx%2)))
	}
	qs := genQueries(r.Fork(), keys, qmax)
	present := map[string]int{}
	for i, k := range keys {
		present[k] = i
	}
	sparse := idx%2 == 1
	// offsets
	offs := make([]int64, n)
	cur := int64(0)
	switch r.Intn(4) {
	case 0:
		cur = 0
	case 1:
		cur = int64(r.U64() >> 2)
		if cur > (1<<62)-int64(n+1)*(1<<20) {
			cur = 1 << 61
		}
	case 2:
		cur = 1<<32 - 5
	default:
		cur = int64(r.Intn(1000))
	}
	rd := &verifyingReader{blocks: map[int64][]record{}}
	items := make([]index.OffsetIndexItem, n)
	maxBlock := 1
	if sparse {
		maxBlock = r.Range(1, 64)
	}
	left := 0
	for i, k := range keys {
		if left == 0 {
			if i > 0 {
				cur += int64(1 + r.Intn(1<<uint(r.Intn(20))))
			}
			left = r.Range(1, maxBlock)
		}
		left--
		offs[i] = cur
		rec := record{k, fmt.Sprintf("rec-%d", i)}
		rd.blocks[cur] = append(rd.blocks[cur], rec)
		items[i] = index.OffsetIndexItem{Key: k, Offset: cur}
	}
	var si *index.SlimIndex
	var err error
	pv, stack := try(func() { si, err = index.NewSlimIndex(items, rd) })
	viol := func(clause, q string, ex map[string]interface{}) {
		d := map[string]interface{}{"family": ks.Family, "n_keys": n, "keys_hex": hexKeys(keys, 40), "offsets": offs[:min(n, 40)], "sparse": sparse, "query_hex": hexq(q)}
		for k, v := range ex {
			d[k] = v
		}
		mode := "dense"
		if sparse {
			mode = "sparse"
		}
		ctx.Violate("C12/"+clause+"/"+mode, d)
	}
	if overLimit && pv == nil && err != nil {
		ctx.Count("over_limit:refused", 1)
		return
	}
	if overLimit {
		ctx.Count("over_limit:accepted", 1)
	}
	if si != nil && pv == nil && err == nil && (n >= 20000 || idx%16 == 0) {
		// what did the index look like? (statistics for the evidence only)
		try(func() {
			if b, e := si.SlimTrie.Marshal(); e == nil {
				countShape(ctx, classify(parseSlim(b)))
			}
		})
	}
	if pv != nil || err != nil {
		viol("build-failed", "", map[string]interface{}{"panic": fmt.Sprint(pv), "error": fmt.Sprint(err), "stack": stack})
		return
	}
	curq := ""
	var nHit, nMiss int64
	pv, stack = try(func() {
		for _, q := range qs {
			curq = q
			var got string
			var found bool
			if sparse {
				got, found = si.RangeGet(q)
			} else {
				got, found = si.Get(q)
			}
			i, isKey := present[q]
			if isKey {
				nHit++
				if !found || got != fmt.Sprintf("rec-%d", i) {
					viol("indexed-key-not-returned", q, map[string]interface{}{"found": found, "observed": got, "expected": fmt.Sprintf("rec-%d", i)})
					return
				}
			} else {
				nMiss++
				if found || got != "" {
					viol("absent-key-returned", q, map[string]interface{}{"observed": got})
					return
				}
			}
		}
		if !sparse {
			// RangeGet with one offset per key is exact as well
			for _, q := range qs[:min(len(qs), 300)] {
				curq = q
				got, found := si.RangeGet(q)
				i, isKey := present[q]
				if isKey != found || (isKey && got != fmt.Sprintf("rec-%d", i)) {
					viol("rangeget-dense", q, map[string]interface{}{"found": found, "observed": got})
					return
				}
			}
		}
	})
	if pv != nil {
		viol("panic", curq, map[string]interface{}{"panic": fmt.Sprint(pv), "stack": stack})
	}
	// A SlimIndex is loaded the way a SlimTrie is: Unmarshal into an existing
	// object. The receiver has a history of its own - built by NewSlimIndex from
	// no items, from one offset per key, or from a sparse set, and loaded before;
	// what it answers after the load depends on the stream and the reader only.
	// And a by-value copy of an index (a snapshot handed to readers) stays what
	// it was when the object it was copied from loads something else.
	if n > 0 && n <= 20000 && !overLimit {
		check := func(x *index.SlimIndex, inst string) bool {
			okAll := true
			pv, stack := try(func() {
				for qi, q := range qs {
					if qi >= 600 {
						break
					}
					curq = q
					var got string
					var found bool
					if sparse {
						got, found = x.RangeGet(q)
					} else {
						got, found = x.Get(q)
					}
					i, isKey := present[q]
					if isKey != found || (isKey && got != fmt.Sprintf("rec-%d", i)) || (!isKey && got != "") {
						viol("loaded-index-differs", q, map[string]interface{}{"instance": inst, "found": found, "observed": got, "indexed": isKey})
						okAll = false
						return
					}
				}
			})
			if pv != nil {
				viol("panic", curq, map[string]interface{}{"instance": inst, "panic": fmt.Sprint(pv), "stack": stack})
				return false
			}
			return okAll
		}
		var stream []byte
		try(func() { stream, _ = si.Marshal() })
		if stream != nil {
			for ri := 0; ri < 3; ri++ {
				if (idx+ri)%3 != 0 && n > 2000 {
					continue
				}
				var recv *index.SlimIndex
				var rerr error
				kind := []string{"built from no items", "built with one offset per key", "built from a sparse set"}[ri]
				pv, _ := try(func() {
					switch ri {
					case 0:
						recv, rerr = index.NewSlimIndex(nil, rd)
					case 1:
						recv, rerr = index.NewSlimIndex([]index.OffsetIndexItem{{Key: "k1", Offset: 1}, {Key: "k2", Offset: 2}, {Key: "k3", Offset: 7}}, rd)
					default:
						recv, rerr = index.NewSlimIndex([]index.OffsetIndexItem{{Key: "k1", Offset: 1}, {Key: "k2", Offset: 1}, {Key: "k3", Offset: 1}, {Key: "k4", Offset: 9}}, rd)
					}
					if rerr != nil || recv == nil {
						return
					}
					recv.RangeGet("k2")
					recv.Get("k3")
					// the three ways the exported, embedded trie can be loaded
					switch (idx + ri) % 3 {
					case 0:
						rerr = recv.Unmarshal(stream)
					case 1:
						rerr = recv.SlimTrie.Unmarshal(stream)
					default:
						rerr = proto.Unmarshal(stream, &recv.SlimTrie)
					}
				})
				if pv != nil || rerr != nil || recv == nil {
					viol("load-failed", "", map[string]interface{}{"receiver": kind, "panic": fmt.Sprint(pv), "error": fmt.Sprint(rerr)})
					continue
				}
				if check(recv, "loaded into a receiver "+kind) {
					ctx.Count("loaded_into_receivers_with_a_history", 1)
				}
			}
			// snapshot copy, then the original moves on
			snap := *si
			try(func() {
				other, _ := index.NewSlimIndex([]index.OffsetIndexItem{{Key: "p", Offset: 3}, {Key: "q", Offset: 3}, {Key: "r", Offset: 5}}, rd)
				ob, _ := other.Marshal()
				switch idx % 3 {
				case 0:
					si.Unmarshal(ob)
				case 1:
					si.Unmarshal(ob[:len(ob)/2])
					si.Reset()
				default:
					si.Unmarshal(ob)
					si.Unmarshal(stream)
				}
			})
			if check(&snap, "by-value copy taken before the original loaded other data") {
				ctx.Count("snapshot_copies_outlive_reloads", 1)
			}
			si = &snap // (the survivor kept for the next case is the copy)
		}
	}
	// the index of the previous case is still alive: it must answer as before
	// now that another index has been built
	if prev, ok := c12Survivor[ctx]; ok && prev != nil {
		curq = ""
		pv, stack := try(func() {
			for i, k := range prev.keys {
				curq = k
				var got string
				var found bool
				if prev.sparse {
					got, found = prev.si.RangeGet(k)
				} else {
					got, found = prev.si.Get(k)
				}
				if !found || got != prev.want[i] {
					viol("earlier-index-changed", k, map[string]interface{}{"what": "an index that answered correctly before no longer does after another index was built",
						"found": found, "observed": got, "expected": prev.want[i], "earlier_keys_hex": hexKeys(prev.keys, 20)})
					return
				}
			}
		})
		if pv != nil {
			viol("earlier-index-changed", curq, map[string]interface{}{"panic": fmt.Sprint(pv), "stack": stack})
		}
		ctx.Count("survivor_rechecks", 1)
	}
	{
		sv := &c12Surv{si: si, sparse: sparse}
		step := 1
		if n > 300 {
			step = n / 300
		}
		for i := 0; i < n; i += step {
			sv.keys = append(sv.keys, keys[i])
			sv.want = append(sv.want, fmt.Sprintf("rec-%d", i))
		}
		c12Survivor[ctx] = sv
	}
	ctx.Count("queries:indexed", nHit)
	ctx.Count("queries:absent", nMiss)
	ctx.Count("reader_reads", rd.reads)
	if sparse {
		ctx.Count("cases:sparse", 1)
		ctx.Max("block_size", int64(maxBlock))
	} else {
		ctx.Count("cases:dense", 1)
	}
	if ctx.WantSample() && n >= 2 && n <= 8 {
		ctx.Sample(map[string]interface{}{"keys_hex": hexKeys(keys, 8), "offsets": offs, "sparse": sparse, "queries": len(qs)})
	}
}

func min(a, b int) int {
	if a < b {
		return a
	}
	return b
}

// ---------------------------------------------------------------------------
// C17 — filter-mode size
// ---------------------------------------------------------------------------

func sizeOf(keys []string) (int, int, error, interface{}) {
	var sz, psz int
	var err error
	pv, _ := try(func() {
		var st *trie.SlimTrie
		st, err = trie.NewSlimTrie(encode.Dummy{}, keys, nil)
		if err != nil {
			return
		}
		var b []byte
		b, err = st.Marshal()
		sz = len(b)
		psz = proto.Size(st)
	})
	return sz, psz, err, pv
}

// adversarial shapes named in the property
func genAdversarial(r *RNG, scale int) KeySet {
	maxN := 3000
	if scale == 1 {
		maxN = 30000
	}
	switch r.Intn(9) {
	case 0: // binary caterpillar
		return KeySet{"adv:caterpillar", genDeep(r, r.Range(10, min(maxN, 1500)))}
	case 1: // every inner node has a long step: binary tree with long edges
		depth := r.Range(2, 8)
		edge := r.Range(3, 60)
		var out []string
		var rec func(p string, d int)
		rec = func(p string, d int) {
			if d == depth {
				out = append(out, p)
				return
			}
			e := string(r.Bytes(edge))
			rec(p+e+"\x10", d+1)
			rec(p+e+"\x90", d+1)
		}
		rec("", 0)
		return KeySet{"adv:long-steps", sortUniq(out)}
	case 2: // fan-out k byte nodes for k in 2..12 and 256, depth 1..4
		kk := []int{2, 3, 4, 5, 6, 7, 8, 9, 10, 11, 12, 256}
		k := kk[r.Intn(len(kk))]
		depth := r.Range(1, 4)
		for pow(k, depth) > maxN*2 && depth > 1 {
			depth--
		}
		return KeySet{fmt.Sprintf("adv:fanout-%d", k), genFanout(r, k, depth, maxN)}
	case 3: // all-distinct label bitmaps: every parent a different nibble set
		var out []string
		np := r.Range(50, min(maxN/4, 2000))
		for p := 0; p < np; p++ {
			pre := string([]byte{byte(p >> 8), byte(p), 0x30})
			mask := r.Intn(1<<16-1) + 1
			for b := 0; b < 16; b++ {
				if mask>>uint(b)&1 == 1 {
					out = append(out, pre[:2]+string([]byte{0x30 | byte(b)}))
				}
			}
		}
		return KeySet{"adv:distinct-bitmaps", sortUniq(out)}
	case 4:
		return KeySet{"adv:long", genLong(r, 16384)}
	case 5:
		// few keys, every node the same wide nibble bitmap: the short-node
		// table must pay for itself
		return KeySet{"adv:decimal", genDecimal(r, 400)}
	case 7:
		// every inner node with a step, and the steps differ from node to node:
		// shrinking, saw-tooth, growing, random (whatever is stored per step -
		// a length, a difference - must stay small for every sequence)
		mode := r.Intn(4)
		return KeySet{fmt.Sprintf("adv:step-sequence-%d", mode), genStepCaterpillar(r, mode)}
	case 6:
		// byte-wide nodes of very different fan-out within one level
		mode := r.Intn(4)
		return KeySet{fmt.Sprintf("adv:mixed-fanout-%d", mode), genMixedFanout(r, maxN, mode)}
	}
	return genKeySet(r, scale)
}

// genStepCaterpillar: a binary caterpillar whose i-th inner node has a shared
// run of its own length in front of it. mode 0: lengths shrink, 1: saw-tooth
// 6..1, 2: grow, 3: random 1..40.
func genStepCaterpillar(r *RNG, mode int) []string {
	n := r.Range(80, 400)
	top := r.Range(8, 60)
	if top*n/2 > 15000 {
		top = 30000 / n
	}
	spine := ""
	var keys []string
	for i := 0; i < n; i++ {
		var l int
		switch mode {
		case 0:
			l = top - i*top/n
		case 1:
			l = 6 - i%6
		case 2:
			l = 1 + i*top/n
		default:
			l = r.Range(1, 40)
		}
		if l < 1 {
			l = 1
		}
		if len(spine)+l > 16000 {
			break
		}
		run := string(r.Bytes(l))
		keys = append(keys, spine+run+"\x10")
		spine += run + "\x90"
	}
	keys = append(keys, spine+"z")
	return sortUniq(keys)
}

// genMixedFanout: levels in which a few nodes have many children (11-20
// distinct next bytes, enough for a 257-bit node) and the rest have two, with
// labels far apart. mode 0: the first node of every level is the wide one;
// 1: the last one; 2: every sixth at random; 3: the first one, and the narrow
// nodes all use the labels 7f/ff.
func genMixedFanout(r *RNG, maxN int, mode int) []string {
	level := []string{""}
	depth := r.Range(5, 12)
	pairs := [][]byte{{0x7f, 0xff}, {0x00, 0x80}, {0x10, 0xf0}, {0x3c, 0xc3}}
	for d := 0; d < depth && len(level) <= maxN; d++ {
		var next []string
		for i, p := range level {
			wide := false
			switch mode {
			case 0, 3:
				wide = i == 0
			case 1:
				wide = i == len(level)-1
			default:
				wide = r.Chance(1, 6)
			}
			var labels []byte
			if wide {
				seen := map[byte]bool{}
				for k := r.Range(11, 20); len(labels) < k; {
					b := byte(r.Intn(256))
					if !seen[b] {
						seen[b] = true
						labels = append(labels, b)
					}
				}
				sort.Slice(labels, func(a, b int) bool { return labels[a] < labels[b] })
			} else if mode == 3 {
				labels = pairs[0]
			} else {
				labels = pairs[r.Intn(len(pairs))]
			}
			for _, l := range labels {
				next = append(next, p+string([]byte{l}))
			}
		}
		level = next
	}
	if len(level) > 2*maxN {
		// (the last level may multiply the count by up to twenty: keep a
		// contiguous run of the sorted keys, which preserves the mixture)
		level = sortUniq(level)
		from := r.Intn(len(level) - 2*maxN)
		level = level[from : from+2*maxN]
	}
	return sortUniq(level)
}

func pow(a, b int) int {
	x := 1
	for i := 0; i < b; i++ {
		x *= a
		if x > 1<<30 {
			return x
		}
	}
	return x
}

// c17AppOpts: the default option list of an application, forwarded to builds
// for as long as the worker lives.
var c17AppOpts = []trie.Opt{{}}

func runC17(ctx *Ctx, idx int) {
	r := NewRNG(caseSeed(ctx.Seed, "C17", ctx.Tier, idx))
	scale := 0
	if ctx.Tier == "thorough" {
		scale = 1
	}
	var ks KeySet
	dir := directedKeySets()
	switch {
	case idx < len(dir):
		ks = dir[idx]
	case idx < len(dir)+8:
		// deep, skinny tries with thousands of keys: every node near the root has
		// thousands of keys below it and a fan-out of two
		j := idx - len(dir)
		depth := []int{2500, 6000}[j/4]
		ks = KeySet{"adv:big-caterpillar", genDeepStyle(r, depth, j%4)}
	case idx%2 == 0:
		ks = genAdversarial(r, scale)
	default:
		ks = genKeySet(r, scale)
		if scale == 1 && idx%97 == 0 {
			ks = KeySet{"uniform-100k", genUniform(r, 100000)}
		}
	}
	keys := ks.Keys
	n := len(keys)
	if n == 0 {
		return
	}
	ctx.Eval()
	ctx.Count("family:"+ks.Family, 1)
	ctx.Max("keys", int64(n))
	maxLen := 0
	for _, k := range keys {
		if len(k) > maxLen {
			maxLen = len(k)
		}
	}
	ctx.Max("key_len", int64(maxLen))
	viol := func(clause string, ex map[string]interface{}) {
		d := map[string]interface{}{"family": ks.Family, "n_keys": n, "keys_hex": hexKeys(keys, 30), "max_key_len": maxLen}
		for k, v := range ex {
			d[k] = v
		}
		ctx.Violate("C17/"+clause, d)
	}
	sz, psz, err, pv := sizeOf(keys)
	if pv != nil || err != nil {
		viol("build-failed", map[string]interface{}{"panic": fmt.Sprint(pv), "error": fmt.Sprint(err)})
		return
	}
	if n >= 2 {
		ctx.Nontrivial(hashStr(keys...))
	}
	if sz != psz {
		viol("marshal-len-vs-proto-size", map[string]interface{}{"len_marshal": sz, "proto_size": psz})
	}
	bound := 8*n + 256
	if sz > bound {
		viol("size-bound", map[string]interface{}{"size": sz, "bound": bound, "bytes_per_key": float64(sz) / float64(n)})
	}
	// the same index held by an instance that is refreshed in place (st.Unmarshal
	// of the same data on the used object, eight times - a process that re-reads
	// its index file periodically) and serialised again: it is still the
	// filter-mode index of these n keys, so the bound applies to what it writes
	if idx%2 == 0 {
		pv, _ := try(func() {
			st, err := trie.NewSlimTrie(encode.Dummy{}, keys, nil)
			if err != nil {
				return
			}
			b, _ := st.Marshal()
			live, _ := trie.NewSlimTrie(encode.Dummy{}, nil, nil)
			for rep := 0; rep < 8; rep++ {
				if live.Unmarshal(b) != nil {
					return
				}
				out, err := live.Marshal()
				if err != nil {
					return
				}
				if len(out) > bound {
					viol("size-bound-after-in-place-reload", map[string]interface{}{"size": len(out), "size_fresh": sz, "bound": bound, "reloads": rep + 1})
					return
				}
			}
			ctx.Count("reloaded_in_place_and_remarshalled", 1)
		})
		if pv != nil {
			viol("reload-panic", map[string]interface{}{"panic": fmt.Sprint(pv)})
		}
	}
	// an application that keeps one option list and forwards it to every build
	// (NewSlimTrie(e, keys, nil, appOpts...)): the list lives as long as the
	// process and has seen every earlier build, now and then one that was
	// refused because its keys share more than a step can count. What is built
	// through it with default options is still the filter-mode index of its keys.
	if idx%4 == 1 {
		pv, _ := try(func() {
			if (idx/4)%8 == 0 {
				long := "a" + strings.Repeat("x", 33000)
				trie.NewSlimTrie(encode.Dummy{}, []string{long + "1", long + "2", "b"}, nil, c17AppOpts...)
				ctx.Count("over_long_build_through_the_forwarded_option_list", 1)
			}
			st, err := trie.NewSlimTrie(encode.Dummy{}, keys, nil, c17AppOpts...)
			if err != nil {
				viol("build-failed-through-forwarded-option-list", map[string]interface{}{"error": err.Error()})
				return
			}
			b, _ := st.Marshal()
			if len(b) > bound {
				viol("size-bound-through-forwarded-option-list", map[string]interface{}{"size": len(b), "size_with_fresh_options": sz, "bound": bound})
				return
			}
			pl := 3000
			if pl+maxLen > 16384 {
				pl = 16384 - maxLen
			}
			if pl > 0 {
				p := strings.Repeat("q", pl)
				pk := make([]string, n)
				for i, k := range keys {
					pk[i] = p + k
				}
				st2, err := trie.NewSlimTrie(encode.Dummy{}, pk, nil, c17AppOpts...)
				if err != nil {
					viol("prefixed-build-failed-through-forwarded-option-list", map[string]interface{}{"error": err.Error()})
					return
				}
				b2, _ := st2.Marshal()
				d := len(b2) - len(b)
				if d < 0 {
					d = -d
				}
				if d > 16+(n+63)/64 {
					viol("prefix-changes-size-through-forwarded-option-list", map[string]interface{}{"prefix_len": pl, "size_K": len(b), "size_PK": len(b2)})
					return
				}
			}
			ctx.Count("built_through_a_long_lived_forwarded_option_list", 1)
		})
		if pv != nil {
			viol("panic-through-forwarded-option-list", map[string]interface{}{"panic": fmt.Sprint(pv)})
		}
	}
	ctx.Max("size_permille_of_bound", int64(sz*1000/bound))
	if n >= 100 {
		ctx.Max("millibytes_per_key_n>=100", int64(sz*1000/n))
	}
	// (K, P+K)
	tol := 16 + (n+63)/64
	var sizes []int
	var plens []int
	for _, pl := range []int{1, 7, 100, 5000, 16000} {
		if pl+maxLen > 16384 {
			pl = 16384 - maxLen
		}
		if pl <= 0 {
			continue
		}
		if n*pl > 1<<27 {
			pl = (1 << 27) / n // (keep the prefixed copy of a big key set within 128 MiB)
			if pl < 1 {
				pl = 1
			}
		}
		var p string
		switch r.Intn(3) {
		case 0:
			p = strings.Repeat("\xff", pl)
		case 1:
			p = strings.Repeat("\x00", pl)
		default:
			p = string(r.Bytes(pl))
		}
		pk := make([]string, n)
		for i, k := range keys {
			pk[i] = p + k
		}
		s2, _, err, pv := sizeOf(pk)
		if pv != nil || err != nil {
			viol("prefixed-build-failed", map[string]interface{}{"prefix_len": pl, "panic": fmt.Sprint(pv), "error": fmt.Sprint(err)})
			continue
		}
		ctx.Count("prefixed_pairs", 1)
		d := s2 - sz
		if d < 0 {
			d = -d
		}
		ctx.Max("abs_delta_prefix", int64(d))
		if d > tol {
			viol("prefix-changes-size", map[string]interface{}{"prefix_len": pl, "size_K": sz, "size_PK": s2, "tolerance": tol})
		}
		sizes = append(sizes, s2)
		plens = append(plens, pl)
	}
	for i := 1; i < len(sizes); i++ {
		d := sizes[i] - sizes[0]
		if d < 0 {
			d = -d
		}
		if d > tol {
			viol("prefix-length-changes-size", map[string]interface{}{"prefix_lens": plens, "sizes": sizes, "tolerance": tol})
			break
		}
	}
	if ctx.WantSample() && n >= 3 && n <= 10 {
		ctx.Sample(map[string]interface{}{"family": ks.Family, "keys_hex": hexKeys(keys, 10), "size": sz, "bound": bound, "prefix_lens": plens, "sizes_with_prefix": sizes})
	}
}

// ---------------------------------------------------------------------------
// C19 — String()
// ---------------------------------------------------------------------------

var lineRe = regexp.MustCompile(`^ *(-[01]*->)?#(\d+)(\+\d+)?(\*\d+)?(=(.*))?$`)

// checkRendering parses String() output: ids exactly {0..L-1} once each; leaf
// lines carry the retained values in key order.
func checkRendering(s string, m *Model) (string, map[string]interface{}) {
	if len(m.RetKeys) == 0 {
		if s != "" {
			return "empty-trie-renders-something", map[string]interface{}{"rendering": truncate(s, 300)}
		}
		return "", nil
	}
	lines := strings.Split(s, "\n")
	seen := make([]bool, len(lines))
	var leafVals []string
	for li, ln := range lines {
		mm := lineRe.FindStringSubmatch(ln)
		if mm == nil {
			return "unparsable-line", map[string]interface{}{"line_no": li, "line": truncate(ln, 300)}
		}
		var id int
		fmt.Sscanf(mm[2], "%d", &id)
		if id < 0 || id >= len(lines) {
			return "node-id-out-of-range", map[string]interface{}{"id": id, "lines": len(lines)}
		}
		if seen[id] {
			return "node-shown-twice", map[string]interface{}{"id": id}
		}
		seen[id] = true
		if mm[5] != "" {
			leafVals = append(leafVals, mm[6])
		}
	}
	for id, ok := range seen {
		if !ok {
			return "node-missing", map[string]interface{}{"id": id, "lines": len(lines)}
		}
	}
	if len(leafVals) != len(m.RetKeys) {
		return "leaf-line-count", map[string]interface{}{"leaf_lines": len(leafVals), "retained": len(m.RetKeys), "lines": len(lines)}
	}
	for r := range m.RetKeys {
		want := fmt.Sprintf("%v", m.ValAt(r))
		if leafVals[r] != want {
			return "leaf-value-order", map[string]interface{}{"position": r, "expected": want, "observed": truncate(leafVals[r], 100)}
		}
	}
	return "", nil
}

func runC19(ctx *Ctx, idx int) {
	r := NewRNG(caseSeed(ctx.Seed, "C19", ctx.Tier, idx))
	scale := 0
	if ctx.Tier == "thorough" {
		scale = 1
	}
	var ks KeySet
	dir := directedKeySets()
	switch {
	case idx < len(dir):
		ks = dir[idx]
	case idx%3 == 0:
		// steer the short-node table
		parents := r.Range(50, 600)
		m := r.Range(1, 14)
		if scale == 1 && idx%600 == 0 {
			// large regular sets: table sizes 8..10 (ten per thorough run:
			// rendering 10^5 nodes several times over costs minutes each)
			switch r.Intn(3) {
			case 0:
				parents, m = 2400, 60
			case 1:
				parents, m = 25000, 84
			case 2:
				parents, m = 48000, 120
			}
		}
		ks = KeySet{"repeats", genRepeats(r, parents, m, r.Range(2, 4))}
	case idx%3 == 1:
		ks = KeySet{"uniform", genUniform(r, 3000+scale*9000)}
	default:
		ks = genKeySet(r, scale)
	}
	if strings.Contains(ks.Family, "deep") && len(ks.Keys) > 400 {
		ks.Keys = ks.Keys[:400] // rendering cost is quadratic in depth
	}
	keys := ks.Keys
	n := len(keys)
	kinds := []string{"i32", "none", "i64", "u16", "i32", "f64", "i8", "defI64", "f64"}
	kind := kinds[r.Intn(len(kinds))]
	vals := genVals(r, kind, n, r.Intn(5))
	if r.Chance(1, 4) {
		// newline-free strings; every other time through the user-defined
		// RawStr encoder (no length prefix, empty strings are absent leaves)
		vals = &ValSpec{Kind: "str16", Strs: make([]string, n)}
		if r.Bool() {
			vals.Kind = "rawstr"
		}
		cur := ""
		for i := range vals.Strs {
			if i == 0 || r.Chance(2, 3) {
				cur = fmt.Sprintf("v%x", r.Intn(1<<20))
				if vals.Kind == "rawstr" && r.Chance(1, 4) {
					cur = ""
				}
			}
			vals.Strs[i] = cur
		}
		if vals.Kind == "rawstr" && n > 0 {
			vals.Strs[r.Intn(n)] = "nonempty" // keep the leaf array in existence
			ctx.Count("valkind:rawstr", 1)
		}
	}
	lc := &LCase{Family: ks.Family, Keys: keys, Vals: vals}
	ctx.Eval()
	ctx.Count("family:"+ks.Family, 1)
	ctx.Max("keys", int64(n))
	opts := allOptSets()
	first := true
	for t := 0; t < 4; t++ {
		ctx.Beat()
		o := opts[(idx*5+t*7)%16]
		m := NewModel(keys, vals, o.D)
		viol := func(clause string, inst string, ex map[string]interface{}) {
			d := lc.describe()
			d["opt"], d["instance"] = o.String(), inst
			for k, v := range ex {
				d[k] = v
			}
			ctx.Violate("C19/"+clause+"/"+o.String(), d)
		}
		st, err, pv, stack := buildTrie(vals.Encoder(), keys, vals.Slice(), o.Opt())
		if pv != nil || err != nil {
			viol("build-failed", "fresh", map[string]interface{}{"panic": fmt.Sprint(pv), "error": fmt.Sprint(err), "stack": stack})
			continue
		}
		stream, _ := st.Marshal()
		sh := classify(parseSlim(stream))
		if first {
			countShape(ctx, sh)
			if len(m.RetKeys) >= 2 {
				ctx.Nontrivial(lc.hash())
			}
			first = false
		}
		var s1, s2 string
		pv, stack = try(func() { s1 = st.String() })
		ctx.Count("calls:String", 1)
		if pv != nil {
			viol("panic", "fresh", map[string]interface{}{"panic": fmt.Sprint(pv), "stack": stack, "short_size": sh.ShortSize, "short_nodes": sh.Short})
			continue
		}
		if why, ex := checkRendering(s1, m); why != "" {
			ex["short_size"], ex["short_nodes"] = sh.ShortSize, sh.Short
			viol(why, "fresh", ex)
			continue
		}
		ctx.Count("lines_parsed", int64(strings.Count(s1, "\n")+1))
		ld, err, pv, stack := loadTrie(vals.Encoder(), stream)
		if pv != nil || err != nil {
			viol("load-failed", "loaded", map[string]interface{}{"panic": fmt.Sprint(pv), "error": fmt.Sprint(err), "stack": stack})
			continue
		}
		pv, stack = try(func() { s2 = ld.String() })
		if pv != nil {
			viol("panic", "loaded", map[string]interface{}{"panic": fmt.Sprint(pv), "stack": stack})
			continue
		}
		if s1 != s2 {
			viol("loaded-renders-differently", "loaded", map[string]interface{}{"fresh_len": len(s1), "loaded_len": len(s2)})
		}
		ctx.Count("fresh_equals_loaded", 1)
		// rendering in company: four goroutines render the same trie (and a
		// by-value copy of it) at once; each must produce what one produces alone
		if t == 0 && n <= 3000 {
			cp := *st
			outs := make([]string, 4)
			done := make(chan int, 4)
			for g := 0; g < 4; g++ {
				go func(g int) {
					defer func() {
						if p := recover(); p != nil {
							outs[g] = "panic: " + fmt.Sprint(p)
						}
						done <- g
					}()
					for rep := 0; rep < 3; rep++ {
						var x string
						if g%2 == 0 {
							x = st.String()
						} else {
							x = cp.String()
						}
						if x != s1 {
							outs[g] = x
							return
						}
					}
					outs[g] = s1
				}(g)
			}
			for g := 0; g < 4; g++ {
				<-done
			}
			for g := 0; g < 4; g++ {
				if outs[g] != s1 {
					viol("renders-differently-in-company", "fresh", map[string]interface{}{"goroutine": g, "alone_len": len(s1), "in_company_len": len(outs[g]), "in_company_head": truncate(outs[g], 200)})
					break
				}
			}
			ctx.Count("rendered_by_4_goroutines_at_once", 1)
		}
		// a by-value copy is a snapshot: it renders the same after the original
		// has been reloaded and reset
		if t%2 == 1 {
			var s4 string
			pv, stack = try(func() {
				snap := *ld
				other, _ := trie.NewSlimTrie(vals.Encoder(), []string{"p", "q", "r"}, nil)
				ob, _ := other.Marshal()
				ld.Unmarshal(ob)
				ld.Reset()
				s4 = snap.String()
			})
			if pv != nil {
				viol("panic", "snapshot-copy", map[string]interface{}{"panic": fmt.Sprint(pv), "stack": stack})
			} else if s4 != s1 {
				viol("snapshot-copy-renders-differently", "snapshot-copy", map[string]interface{}{"fresh_len": len(s1), "copy_len": len(s4), "copy_head": truncate(s4, 200)})
			} else {
				ctx.Count("snapshot_copy_renders_equal", 1)
			}
		}
		// the same stream loaded into an instance that holds another trie and
		// has already been rendered
		if t%2 == 0 {
			var s3 string
			pv, stack = try(func() {
				used, err := trie.NewSlimTrie(vals.Encoder(), []string{"old", "older", "oldest"}, nil, trie.Opt{Complete: trie.Bool(true)})
				if err != nil {
					return
				}
				_ = used.String()
				_ = used.Stat()
				if err := used.Unmarshal(stream); err != nil {
					s3 = "ERR " + err.Error()
					return
				}
				s3 = used.String()
			})
			if pv != nil {
				viol("panic", "reloaded", map[string]interface{}{"panic": fmt.Sprint(pv), "stack": stack})
			} else if s3 != s1 {
				viol("reloaded-renders-differently", "reloaded", map[string]interface{}{"fresh_len": len(s1), "reloaded_len": len(s3), "reloaded_head": truncate(s3, 200)})
			} else {
				ctx.Count("fresh_equals_reloaded_into_used_instance", 1)
			}
		}
		if ctx.WantSample() && n >= 3 && n <= 6 {
			ctx.Sample(map[string]interface{}{"keys_hex": hexKeys(keys, 6), "values": vals.Describe(6), "opt": o.String(), "rendering": strings.Split(s1, "\n")})
		}
	}
}

func init() {
	register(&CheckDef{
		ID: "C12", Level: "exploration",
		Rule: "case = (record set from the key families, strictly increasing offsets; even cases one offset per key, odd cases blocks of 1..64 adjacent keys sharing a block offset) + Q(K); oracle: through a DataReader that returns a record only if the stored key equals the query, Get (dense) / RangeGet (sparse) returns the record iff the query is indexed; the index of the previous case is kept alive and re-read after the next one has been built; non-trivial = at least 2 records; distinct by hash of keys and mode",
		NumCases: func(tier string) int {
			if tier == "thorough" {
				return 100000
			}
			return 2000
		},
		Run: runC12,
		// "Get returns the stored record ... and not-found for every other
		// string": a lookup that never returns is neither (normal cost of a
		// case: milliseconds, seconds for the 280 000-key one)
		HangIsViolation: true,
		HangSeconds:     150,
		MinNontrivial:   func(tier string) int { return 500 },
		Gates:           shapeGates("cases:sparse", "cases:dense", "queries:indexed", "queries:absent", "reader_reads", "survivor_rechecks", "loaded_into_receivers_with_a_history", "snapshot_copies_outlive_reloads"),
		Assumptions:     []string{"the verifying reader in harness/chk_misc.go models 'a data reader that verifies the record key'"},
	})
	register(&CheckDef{
		ID: "C17", Level: "exploration",
		Rule: "case = key set (generated families, adversarial shapes: caterpillars (also 2500 and 6000 levels deep in four styles), long steps on every inner node, byte fan-out k in 2..12 and 256 at depth 1..4, all-distinct label bitmaps, 16 KiB keys) built with default options and nil values; oracle: len(Marshal) == proto.Size, size <= 8*|K|+256, and for prefixes P of 1/7/100/5000/16000 bytes (kept within the 16 KiB key limit) |size(P+K)-size(K)| <= 16+ceil(|K|/64) and sizes for different P agree within the same tolerance; non-trivial = at least 2 keys",
		NumCases: func(tier string) int {
			if tier == "thorough" {
				return 8000
			}
			return 900
		},
		Run:           runC17,
		MinNontrivial: func(tier string) int { return 300 },
		Gates: func(tier string, m *Merged) []string {
			var missed []string
			for _, g := range []string{"prefixed_pairs", "family:adv:caterpillar", "family:adv:big-caterpillar", "family:adv:decimal", "family:adv:long-steps", "family:adv:distinct-bitmaps", "family:adv:fanout-11", "family:adv:fanout-2", "family:adv:fanout-256", "family:adv:mixed-fanout-0", "family:adv:mixed-fanout-3", "family:adv:step-sequence-0", "family:adv:step-sequence-1", "built_through_a_long_lived_forwarded_option_list", "over_long_build_through_the_forwarded_option_list"} {
				if m.C(g) == 0 {
					missed = append(missed, g)
				}
			}
			if m.C("max:key_len") < 16000 {
				missed = append(missed, "key_len>=16000")
			}
			return missed
		},
		Assumptions: []string{"'a few bytes' is read as 16 + ceil(|K|/64) bytes (varint growth of rank-index entries); measured deltas on the pinned tree are in evidence (max:abs_delta_prefix)"},
	})
	register(&CheckDef{
		ID: "C19", Level: "exploration",
		Rule: "case = (key list steered towards regular shapes so that short-node tables of many sizes and 257-bit nodes occur, value list) x 4 rotating option sets; oracle: String() does not panic; every line parses; node ids are exactly 0..lines-1, each once; the leaf lines read top to bottom carry the retained values in key order; the loaded trie renders byte-identically, also when loaded into an instance that holds another trie and was rendered before; non-trivial = at least 2 retained keys",
		NumCases: func(tier string) int {
			if tier == "thorough" {
				return 6000
			}
			return 600
		},
		Run:           runC19,
		MinNontrivial: func(tier string) int { return 200 },
		Gates: func(tier string, m *Merged) []string {
			var missed []string
			sizes := 0
			for s := 1; s <= 10; s++ {
				if m.C(fmt.Sprintf("shape:shortsize_%d", s)) > 0 {
					sizes++
				} else if tier == "thorough" {
					missed = append(missed, fmt.Sprintf("shape:shortsize_%d", s))
				}
			}
			if tier == "quick" && sizes < 3 {
				missed = append(missed, "at least 3 short-table sizes")
			}
			for _, g := range []string{"shape:with_257bit_nodes", "shape:with_straddling_short", "fresh_equals_loaded", "fresh_equals_reloaded_into_used_instance", "snapshot_copy_renders_equal", "valkind:rawstr"} {
				if m.C(g) == 0 {
					missed = append(missed, g)
				}
			}
			return missed
		},
		Assumptions: []string{"rendering grammar: optional '-<bits>->' label, '#<id>', optional '+<step>', optional '*<fanout>', optional '=<value>' with %v formatting; integer and newline-free string values are used so that parsing is unambiguous", "node count is taken from the rendering itself, not from Stat()"},
	})
	// C18 via the lookup-family driver
	register(lookupCheckDef("C18",
		"case = (key list, value list) x 16 option sets x fresh / Unmarshal-loaded / proto-loaded (plus legacy-loaded streams in the C06 workload); oracle: KeyCnt == retained count, NodeCnt == last level total == inner+leaf, last level leaf == KeyCnt, every level total == inner+leaf, all columns non-decreasing, LevelCnt == len(Levels), (0,0) for empty and (1,1) for a single key, Stat deep-equal after a marshal round trip; non-trivial = at least 2 retained keys",
		shapeGates("calls:Stat", "instances:loaded", "instances:proto-loaded", "family:directed:empty", "family:directed:single-1", "cases:with_dropped_keys", "shape:with_257bit_nodes", "shape:with_short_nodes")))
	_ = sort.Ints
}
