package main

import (
	"bytes"
	"crypto/sha256"
	"encoding/hex"
	"fmt"
	"math"
	"reflect"
	"strings"
	"unsafe"

	"github.com/golang/protobuf/proto"
	"github.com/openacid/errors"
	"github.com/openacid/slim/encode"
	"github.com/openacid/slim/trie"
)

// ---------------------------------------------------------------------------
// battery digests: canonical renderings of what an instance answers
// ---------------------------------------------------------------------------

func pstr(pv interface{}) string {
	s := fmt.Sprint(pv)
	// runtime errors carry no addresses; keep them whole but bounded
	return "PANIC(" + truncate(s, 120) + ")"
}

// digestLookups renders Get/GetID/RangeGet/Search over qs.
func digestLookups(st *trie.SlimTrie, qs []string) string {
	var b strings.Builder
	for _, q := range qs {
		pv, _ := try(func() {
			v, f := st.Get(q)
			id := st.GetID(q)
			rv, rf := st.RangeGet(q)
			l, e, r := st.Search(q)
			fmt.Fprintf(&b, "%s|%v|%d|%s|%v|%s|%s|%s\n", show(v), f, id, show(rv), rf, show(l), show(e), show(r))
		})
		if pv != nil {
			b.WriteString(pstr(pv) + "\n")
		}
	}
	return b.String()
}

// digestScans renders what the scan entry points deliver (or that they panic).
func digestScans(st *trie.SlimTrie, starts []string) string {
	var b strings.Builder
	for i, s := range starts {
		n := 0
		pv, _ := try(func() {
			st.ScanFrom(s, i%2 == 0, true, func(k, v []byte) bool {
				fmt.Fprintf(&b, "%x=%x,", k, v)
				n++
				return n < 120
			})
		})
		if pv != nil {
			b.WriteString(pstr(pv))
		}
		b.WriteString(";")
		pv, _ = try(func() {
			nxt := st.NewIter(s, i%2 == 1, i%3 == 0)
			for t := 0; t < 40; t++ {
				k, v := nxt()
				if k == nil {
					b.WriteString("END")
					break
				}
				fmt.Fprintf(&b, "%x=%x,", k, v)
			}
		})
		if pv != nil {
			b.WriteString(pstr(pv))
		}
		b.WriteString("\n")
	}
	return b.String()
}

func digestStat(st *trie.SlimTrie) string {
	var s string
	pv, _ := try(func() { s = fmt.Sprintf("%+v", *st.Stat()) })
	if pv != nil {
		return pstr(pv)
	}
	return s
}

func digestString(st *trie.SlimTrie) string {
	var s string
	pv, _ := try(func() { s = st.String() })
	if pv != nil {
		return pstr(pv)
	}
	h := sha256.Sum256([]byte(s))
	return fmt.Sprintf("%d:%x", len(s), h[:8])
}

func digestMarshal(st *trie.SlimTrie) string {
	var out []byte
	var err error
	pv, _ := try(func() { out, err = st.Marshal() })
	if pv != nil {
		return pstr(pv)
	}
	if err != nil {
		return "ERR(" + err.Error() + ")"
	}
	h := sha256.Sum256(out)
	// the advertised size belongs to the same observation: it must describe
	// the bytes Marshal returns now, not those of an earlier state
	psz := -1
	try(func() { psz = proto.Size(st) })
	return fmt.Sprintf("%d:%x:size=%d", len(out), h[:8], psz)
}

type fullDigest struct {
	Lookups, Scans, Stat, Str, Marshal string
}

// digestAll computes the battery. String() costs O(nodes x depth); callers may
// switch it off for large tries or sample it (an empty Str is not compared).
func digestAll(st *trie.SlimTrie, qs []string, starts []string, withString ...bool) fullDigest {
	d := fullDigest{Lookups: digestLookups(st, qs), Scans: digestScans(st, starts), Stat: digestStat(st), Marshal: digestMarshal(st)}
	if len(withString) == 0 || withString[0] {
		d.Str = digestString(st)
	}
	return d
}

// diff names the first component that differs ("" if equal). withStat etc.
// select what is compared.
func (a fullDigest) diff(b fullDigest, all bool) string {
	if a.Lookups != b.Lookups {
		return "lookups"
	}
	if a.Scans != b.Scans {
		return "scans"
	}
	if !all {
		return ""
	}
	if a.Stat != b.Stat {
		return "stat"
	}
	if a.Str != "" && b.Str != "" && a.Str != b.Str {
		return "string"
	}
	if a.Marshal != b.Marshal {
		return "marshal"
	}
	return ""
}

func firstDiffLine(a, b string) (int, string, string) {
	la, lb := strings.Split(a, "\n"), strings.Split(b, "\n")
	for i := 0; i < len(la) || i < len(lb); i++ {
		var x, y string
		if i < len(la) {
			x = la[i]
		}
		if i < len(lb) {
			y = lb[i]
		}
		if x != y {
			return i, truncate(x, 300), truncate(y, 300)
		}
	}
	return -1, "", ""
}

func pickStarts(r *RNG, qs []string, n int) []string {
	out := []string{""}
	for i := 0; i < n && len(qs) > 0; i++ {
		out = append(out, qs[r.Intn(len(qs))])
	}
	return out
}

// ---------------------------------------------------------------------------
// C05 — round trip and byte stability; load/reset histories
// ---------------------------------------------------------------------------

const c05Ops = 17 // U(s0..s7), P(s0..s7), Reset

func c05NumPools(tier string) int {
	if tier == "thorough" {
		return 120
	}
	return 8
}

func c05NumGen(tier string) int {
	if tier == "thorough" {
		return 4000
	}
	return 500
}

func c05NumCases(tier string) int { return c05NumGen(tier) + c05NumPools(tier)*c05Ops }

func deepCopyKeys(keys []string) []string {
	out := make([]string, len(keys))
	for i, k := range keys {
		out[i] = string(append([]byte{}, k...))
	}
	return out
}

// genMegabyte: key sets that push one byte array of the serialised message
// beyond 1 MiB (a size no generated case reaches by chance).
func genMegabyte(r *RNG, which int) KeySet {
	var k []string
	switch which {
	case 0: // leaves: 12 000 keys, values chosen by the caller
		for i := 0; i < 12000; i++ {
			k = append(k, string(r.Bytes(r.Range(3, 7))))
		}
		return KeySet{"mb:values", sortUniq(k)}
	case 1: // leaf tails: 4 500 keys with 250-330 byte tails behind the last branch
		for i := 0; i < 4500; i++ {
			k = append(k, string(r.Bytes(4))+string(r.Bytes(r.Range(250, 330))))
		}
		return KeySet{"mb:leaf-tails", sortUniq(k)}
	}
	// inner prefixes: 2 200 pairs of keys, each pair behind its own 500-600 byte run
	for i := 0; i < 2200; i++ {
		p := string(r.Bytes(3)) + string(r.Bytes(r.Range(500, 600)))
		k = append(k, p+"\x10", p+"\x10\x00", p+"\xf0"+string(r.Bytes(r.Intn(3))))
	}
	return KeySet{"mb:inner-prefixes", sortUniq(k)}
}

func runC05RoundTrip(ctx *Ctx, idx int) {
	r := NewRNG(caseSeed(ctx.Seed, "C05", ctx.Tier, idx))
	scale := 0
	if ctx.Tier == "thorough" {
		scale = 1
	}
	var ks KeySet
	dir := directedKeySets()
	if idx < len(dir) {
		ks = dir[idx]
	} else if idx < len(dir)+3 {
		// streams of several hundred KiB (whatever a writer may do differently
		// for big messages - chunks, parallel encoding - must still be stable)
		ks = genBig(r, []int{0, 5, 2}[idx-len(dir)])
	} else if idx < len(dir)+6 {
		// one byte array of the message beyond 1 MiB: encoded values, stored
		// leaf tails, stored inner prefixes in turn
		ks = genMegabyte(r, idx-len(dir)-3)
	} else if idx%5 == 0 {
		// low-entropy label sets: many equally frequent bitmaps (tie-breaks in the short table)
		ks = KeySet{"repeats", genRepeats(r, r.Range(30, 500), r.Range(2, 14), r.Range(2, 4))}
	} else {
		ks = genKeySet(r, scale)
	}
	keys := ks.Keys
	n := len(keys)
	vals := genVals(r, pickKind(r), n, r.Intn(5))
	if n > 20000 {
		vals = genVals(r, []string{"i64", "i32", "str16"}[idx%3], n, 0)
	}
	if ks.Family == "mb:values" {
		// 100-260 bytes per value: 1.2-3 MiB of leaves
		vals = &ValSpec{Kind: "bytesN", N: r.Range(100, 260), Strs: make([]string, n)}
		for i := range vals.Strs {
			vals.Strs[i] = string(r.Bytes(vals.N))
		}
	} else if strings.HasPrefix(ks.Family, "mb:") {
		vals = genVals(r, []string{"i32", "str16", "none"}[r.Intn(3)], n, []int{0, 1}[r.Intn(2)])
	}
	lc := &LCase{Family: ks.Family, Keys: keys, Vals: vals, R: r}
	ctx.Eval()
	ctx.Count("family:"+ks.Family, 1)
	ctx.Count("valkind:"+vals.Kind, 1)
	if n >= 2 {
		ctx.Nontrivial(lc.hash())
	}
	qs := genQueries(r.Fork(), keys, 500)
	if len(qs) > 700 {
		qs = append(qs[:100], qs[len(qs)-600:]...)
	}
	starts := pickStarts(r, qs, 5)
	enc := vals.Encoder()
	opts := allOptSets()
	for oi, o := range opts {
		ctx.Beat()
		if n > 20000 {
			if oi != 8 && oi != 9 {
				continue // very large sets: the default and the complete option set
			}
		} else if (oi+idx)%2 == 1 && !lc.Exh && n > 300 {
			continue // large sets: half of the option sets per case, rotating
		}
		viol := func(clause string, ex map[string]interface{}) {
			d := lc.describe()
			d["opt"] = o.String()
			for k, v := range ex {
				d[k] = v
			}
			ctx.Violate("C05/"+clause+"/"+o.String(), d)
		}
		st, err, pv, stack := buildTrie(enc, keys, vals.Slice(), o.Opt())
		if pv != nil || err != nil {
			viol("build-failed", map[string]interface{}{"panic": fmt.Sprint(pv), "error": fmt.Sprint(err), "stack": stack})
			continue
		}
		b1, err := st.Marshal()
		if err != nil {
			viol("marshal-error", map[string]interface{}{"error": err.Error()})
			continue
		}
		// repeated Marshal of the same instance
		if b1b, _ := st.Marshal(); !bytes.Equal(b1, b1b) {
			viol("marshal-twice-differs", nil)
		}
		// independent builds from equal input
		nre := 4
		if n > 400 {
			nre = 1
		}
		for t := 0; t < nre; t++ {
			st2, err, pv, _ := buildTrie(vals.Encoder(), deepCopyKeys(keys), vals.Slice(), o.Opt())
			if pv != nil || err != nil {
				viol("rebuild-failed", map[string]interface{}{"panic": fmt.Sprint(pv), "error": fmt.Sprint(err)})
				break
			}
			b2, _ := st2.Marshal()
			if !bytes.Equal(b1, b2) {
				p := 0
				for p < len(b1) && p < len(b2) && b1[p] == b2[p] {
					p++
				}
				viol("builds-not-byte-identical", map[string]interface{}{"len_a": len(b1), "len_b": len(b2), "first_diff_at": p, "rebuild_no": t + 1})
				break
			}
			ctx.Count("rebuilds_compared", 1)
		}
		// advertised size and the generic proto entry point
		var psz int
		var pb []byte
		pv, stack = try(func() {
			psz = proto.Size(st)
			pb, err = proto.Marshal(st)
		})
		if pv != nil || err != nil {
			viol("proto-marshal-failed", map[string]interface{}{"panic": fmt.Sprint(pv), "error": fmt.Sprint(err), "stack": stack})
		} else {
			if psz != len(b1) {
				viol("size-differs-from-length", map[string]interface{}{"proto_size": psz, "len": len(b1)})
			}
			if !bytes.Equal(pb, b1) {
				viol("proto-marshal-differs", nil)
			}
		}
		// round trip
		withStr := n <= 600
		dFresh := digestAll(st, qs, starts, withStr)
		for li := 0; li < 2; li++ {
			var ld *trie.SlimTrie
			name := "Unmarshal"
			if li == 0 {
				ld, err, pv, stack = loadTrie(enc, b1)
			} else {
				if (oi+idx)%3 != 0 {
					continue
				}
				name = "proto.Unmarshal"
				ld, err, pv, stack = loadTrieProto(enc, b1)
			}
			if pv != nil || err != nil {
				viol("load-failed", map[string]interface{}{"via": name, "panic": fmt.Sprint(pv), "error": fmt.Sprint(err), "stack": stack})
				continue
			}
			dLoaded := digestAll(ld, qs, starts, withStr)
			if which := dFresh.diff(dLoaded, true); which != "" {
				ex := map[string]interface{}{"via": name, "component": which}
				if which == "lookups" {
					ln, a, b := firstDiffLine(dFresh.Lookups, dLoaded.Lookups)
					if ln >= 0 && ln < len(qs) {
						ex["query_hex"] = hexq(qs[ln])
					}
					ex["fresh"], ex["loaded"] = a, b
				} else if which == "scans" {
					_, a, b := firstDiffLine(dFresh.Scans, dLoaded.Scans)
					ex["fresh"], ex["loaded"] = a, b
				} else if which == "stat" {
					ex["fresh"], ex["loaded"] = dFresh.Stat, dLoaded.Stat
				}
				viol("loaded-answers-differ", ex)
				continue
			}
			ctx.Count("roundtrips_equal:"+name, 1)
			// a by-value copy of the loaded instance (a table of loaded indexes,
			// a backup taken before a risky reload) stays what was loaded, whatever
			// the object it was copied from loads or forgets afterwards
			if li == 0 && (oi+idx)%2 == 0 {
				snap := *ld
				try(func() {
					other, _ := trie.NewSlimTrie(enc, []string{"p", "pq", "q"}, nil, trie.Opt{Complete: trie.Bool(true)})
					ob, _ := other.Marshal()
					switch (oi + idx) / 2 % 3 {
					case 0:
						ld.Unmarshal(ob)
					case 1:
						proto.Unmarshal(ob, ld)
					case 2:
						ld.Unmarshal(ob[:len(ob)/2])
						ld.Reset()
					}
				})
				dSnap := digestAll(&snap, qs, starts, withStr)
				if which := dFresh.diff(dSnap, true); which != "" {
					viol("copy-of-loaded-instance-changed-by-later-load", map[string]interface{}{"component": which, "then": []string{"Unmarshal of another stream", "proto.Unmarshal of another stream", "refused Unmarshal and Reset"}[(oi+idx)/2%3]})
					continue
				}
				ctx.Count("copies_of_loaded_instances_outlive_reloads", 1)
			}
		}
		ctx.Count("queries_compared", int64(len(qs)))
		if oi == 0 || oi == 15 {
			countShape(ctx, classify(parseSlim(b1)))
		}
		if len(b1) > 1<<20 {
			if m := parseSlim(b1); m != nil {
				if m.Leaves != nil && len(m.Leaves.Bytes) > 1<<20 {
					ctx.Count("roundtrip_with_leaves_beyond_1MiB", 1)
				}
				if m.LeafPrefixes != nil && len(m.LeafPrefixes.Bytes) > 1<<20 {
					ctx.Count("roundtrip_with_leaf_tails_beyond_1MiB", 1)
				}
				if m.InnerPrefixes != nil && len(m.InnerPrefixes.Bytes) > 1<<20 {
					ctx.Count("roundtrip_with_inner_prefixes_beyond_1MiB", 1)
				}
			}
		}
		ctx.Max("largest_stream_bytes", int64(len(b1)))
		if ctx.WantSample() && n >= 2 && n <= 8 && oi == 15 {
			d := lc.describe()
			d["opt"] = o.String()
			d["marshal_len"] = len(b1)
			d["marshal_sha256_8"] = dFresh.Marshal
			ctx.Sample(d)
		}
	}
}

// c05Pool builds the 8 streams of pool p.
type c05Pool struct {
	streams [8][]byte
	good    [8]bool
	names   [8]string
	qs      []string
	starts  []string
	ref     [8]fullDigest
	refNew  fullDigest
}

func i32Runs(r *RNG, n int) *ValSpec { return genVals(r, "i32", n, r.Intn(5)) }

func buildC05Pool(seed uint64, tier string, p int) (*c05Pool, error) {
	r := NewRNG(caseSeed(seed, "C05-pool", tier, p))
	pool := &c05Pool{}
	opts := allOptSets()
	var allKeys []string
	mk := func(ks []string, o OptSet) ([]byte, *ValSpec, error) {
		v := i32Runs(r, len(ks))
		st, err := trie.NewSlimTrie(encode.I32{}, ks, v.Slice(), o.Opt())
		if err != nil {
			return nil, nil, err
		}
		b, err := st.Marshal()
		allKeys = append(allKeys, ks...)
		return b, v, err
	}
	var err error
	// s0 empty
	if pool.streams[0], _, err = mk(nil, opts[r.Intn(16)]); err != nil {
		return nil, err
	}
	pool.names[0], pool.good[0] = "empty", true
	// s1 small
	kA := genSmallAlpha(r)
	oA := opts[r.Intn(16)]
	if pool.streams[1], _, err = mk(kA, oA); err != nil {
		return nil, err
	}
	pool.names[1], pool.good[1] = "small-"+oA.String(), true
	// s2 large, complete
	kB := genUniform(r, 900)
	if r.Bool() {
		kB = genRepeats(r, r.Range(100, 300), r.Range(2, 9), 4)
	}
	if pool.streams[2], _, err = mk(kB, OptSet{D: r.Bool(), C: true}); err != nil {
		return nil, err
	}
	pool.names[2], pool.good[2] = "large-complete", true
	// s3 inner-prefix only
	kC := genKeySet(r, 2).Keys
	if pool.streams[3], _, err = mk(kC, OptSet{D: true, I: true}); err != nil {
		return nil, err
	}
	pool.names[3], pool.good[3] = "innerprefix", true
	// s4 0.5.10 allpref
	kD := genKeySet(r, 2).Keys
	cur, _, err := mk(kD, OptSet{D: true, C: true})
	if err != nil {
		return nil, err
	}
	if pool.streams[4], err = legacyStream0510(cur, []string{"0.5.10", "0.5.11"}[r.Intn(2)]); err != nil {
		return nil, err
	}
	pool.names[4], pool.good[4] = "0.5.10-allpref", true
	// s5 three-section
	kE := genSmallAlpha(r)
	if r.Bool() {
		kE = genNibbleDense(r, 300)
	}
	allKeys = append(allKeys, kE...)
	variant := oldVariants[r.Intn(len(oldVariants))]
	s5, ok := legacyStream3(kE, i32Runs(r, len(kE)), variant)
	if !ok {
		return nil, fmt.Errorf("legacy stream not encodable")
	}
	pool.streams[5] = s5
	pool.names[5], pool.good[5] = "3sec-"+variant, true
	// s6 truncated
	src := pool.streams[[]int{2, 4, 5}[r.Intn(3)]]
	pool.streams[6] = append([]byte{}, src[:r.Intn(len(src))]...)
	pool.names[6] = "truncated"
	// s7 incompatible
	s7 := append([]byte{}, pool.streams[1]...)
	copy(s7[:16], make([]byte, 16))
	copy(s7, []string{"0.6.0", "0.5.13", "2.0.0", "0.5.7", "garbage"}[r.Intn(5)])
	pool.streams[7] = s7
	pool.names[7] = "incompatible"

	allKeys = sortUniq(allKeys)
	pool.qs = genQueries(r.Fork(), allKeys, 0)
	if len(pool.qs) > 260 {
		perm := r.Perm(len(pool.qs))
		var sel []string
		for _, i := range perm[:260] {
			sel = append(sel, pool.qs[i])
		}
		pool.qs = sel
	}
	pool.starts = pickStarts(r, pool.qs, 3)
	// references: a brand-new instance given only that stream
	for i := 0; i < 8; i++ {
		if !pool.good[i] {
			continue
		}
		st, lerr, pv, _ := loadTrie(encode.I32{}, pool.streams[i])
		if lerr != nil || pv != nil {
			return nil, fmt.Errorf("reference load of pool stream %s failed: %v %v", pool.names[i], lerr, pv)
		}
		pool.ref[i] = digestAll(st, pool.qs, pool.starts)
	}
	st0, _ := trie.NewSlimTrie(encode.I32{}, nil, nil)
	pool.refNew = digestAll(st0, pool.qs, pool.starts)
	return pool, nil
}

func opName(pool *c05Pool, op int) string {
	switch {
	case op < 8:
		return "Unmarshal(" + pool.names[op] + ")"
	case op < 16:
		return "proto.Unmarshal(" + pool.names[op-8] + ")"
	}
	return "Reset()"
}

func runC05History(ctx *Ctx, p int, firstOp int) {
	pool, err := buildC05Pool(ctx.Seed, ctx.Tier, p)
	if err != nil {
		if strings.Contains(err.Error(), "not encodable") {
			ctx.Count("pools_skipped", 1)
			return
		}
		// building, marshalling or re-loading a valid stream failed: that is
		// a round-trip failure, not a reason to skip
		if firstOp == 0 {
			ctx.Violate("C05/pool-stream-unusable", map[string]interface{}{"pool": p, "error": err.Error()})
		}
		return
	}
	// all sequences of length 1..3 starting with firstOp
	var seqs [][]int
	seqs = append(seqs, []int{firstOp})
	for b := 0; b < c05Ops; b++ {
		seqs = append(seqs, []int{firstOp, b})
		for c := 0; c < c05Ops; c++ {
			seqs = append(seqs, []int{firstOp, b, c})
		}
	}
	for si, seq := range seqs {
		ctx.Eval()
		ctx.Beat()
		st, _ := trie.NewSlimTrie(encode.I32{}, nil, nil)
		// model state: -1 new/empty, -2 empty after failed load, i = stream i
		state := -1
		names := []string{}
		var opErr error
		var pv interface{}
		var stack string
		// every other history reads through every kind of API after each
		// step: a result memoised by a read and not invalidated by the next
		// load or Reset shows up as residue
		touch := si%2 == 1
		for _, op := range seq {
			names = append(names, opName(pool, op))
			if touch {
				names[len(names)-1] += "+reads"
			}
			pv, stack = try(func() {
				switch {
				case op < 8:
					opErr = st.Unmarshal(pool.streams[op])
				case op < 16:
					opErr = proto.Unmarshal(pool.streams[op-8], st)
				default:
					st.Reset()
					opErr = nil
				}
			})
			if pv != nil {
				break
			}
			if touch {
				try(func() {
					_ = st.String()
					_ = st.Stat()
					st.Marshal()
					_ = proto.Size(st)
					for _, q := range pool.qs[:4] {
						st.Get(q)
						st.Search(q)
					}
					st.ScanFrom("", true, true, func(k, v []byte) bool { return false })
					st.NewIter("", true, false)()
				})
			}
			if op == 16 {
				state = -1
			} else {
				s := op % 8
				if pool.good[s] {
					if opErr != nil {
						ctx.Violate("C05/history-valid-stream-rejected", map[string]interface{}{"sequence": names, "error": opErr.Error(), "pool": p})
						state = -3
						break
					}
					state = s
				} else {
					if opErr == nil {
						ctx.Violate("C05/history-bad-stream-accepted", map[string]interface{}{"sequence": names, "pool": p})
						state = -3
						break
					}
					state = -2
				}
			}
		}
		if pv != nil {
			ctx.Violate("C05/history-panic", map[string]interface{}{"sequence": names, "panic": fmt.Sprint(pv), "stack": stack, "pool": p})
			continue
		}
		if state == -3 {
			continue
		}
		got := digestAll(st, pool.qs, pool.starts, si%3 == 0)
		var want fullDigest
		all := true
		switch state {
		case -1:
			want = pool.refNew
			ctx.Count("final_state:empty", 1)
		case -2:
			want = pool.refNew
			all = false // after a failed load only lookups and scans are promised
			ctx.Count("final_state:after_failed_load", 1)
		default:
			want = pool.ref[state]
			ctx.Count("final_state:loaded", 1)
		}
		if which := want.diff(got, all); which != "" {
			ex := map[string]interface{}{"sequence": names, "component": which, "pool": p, "final_state": state}
			switch which {
			case "lookups":
				ln, a, b := firstDiffLine(want.Lookups, got.Lookups)
				if ln >= 0 && ln < len(pool.qs) {
					ex["query_hex"] = hexq(pool.qs[ln])
				}
				ex["expected"], ex["observed"] = a, b
			case "scans":
				_, a, b := firstDiffLine(want.Scans, got.Scans)
				ex["expected"], ex["observed"] = a, b
			case "stat":
				ex["expected"], ex["observed"] = want.Stat, got.Stat
			}
			ctx.Violate("C05/history-residue-"+which, ex)
			continue
		}
		// ... and its advertised size is the length of what it marshals, whatever
		// layout it was loaded from (framing with a length prefix relies on it)
		if state >= 0 {
			// (the digest of Marshal carries both numbers: "<len>:<hash>:size=<proto.Size>")
			var ln, psz int
			var hx string
			if k, _ := fmt.Sscanf(strings.Replace(got.Marshal, ":", " ", -1), "%d %s size=%d", &ln, &hx, &psz); k == 3 {
				if psz != ln {
					ctx.Violate("C05/size-differs-from-length", map[string]interface{}{"sequence": names, "pool": p, "final_stream": pool.names[state], "proto_size": psz, "len_marshal": ln,
						"what": "proto.Size of a loaded instance is not the length of what it marshals"})
					continue
				}
				ctx.Count("loaded_size_equals_length:"+strings.SplitN(pool.names[state], "-", 2)[0], 1)
			}
		}
		// a loaded trie is a trie: what it marshals must load again and answer
		// the same (in particular when it came from a historical layout)
		if state >= 0 && si%4 == 0 {
			var b []byte
			var merr error
			pvm, _ := try(func() { b, merr = st.Marshal() })
			if pvm == nil && merr == nil {
				again, lerr, pvl, stackl := loadTrie(encode.I32{}, b)
				if pvl != nil || lerr != nil {
					ctx.Violate("C05/remarshalled-stream-does-not-load", map[string]interface{}{"sequence": names, "pool": p, "final_stream": pool.names[state],
						"error": fmt.Sprint(lerr), "panic": fmt.Sprint(pvl), "stack": stackl})
					continue
				}
				d2 := digestAll(again, pool.qs, pool.starts, false)
				if which := want.diff(d2, false); which != "" {
					ctx.Violate("C05/remarshalled-stream-answers-differ", map[string]interface{}{"sequence": names, "pool": p, "final_stream": pool.names[state], "component": which})
					continue
				}
				ctx.Count("remarshalled_and_reloaded:"+strings.SplitN(pool.names[state], "-", 2)[0], 1)
			}
		}
		if len(seq) >= 2 {
			ctx.Nontrivial(mix(uint64(p)*1000003+uint64(si), uint64(firstOp)))
		}
		if ctx.WantSample() && len(seq) == 3 && si%97 == 0 {
			ctx.Sample(map[string]interface{}{"kind": "history", "sequence": names, "final_state": state, "compared": map[bool]string{true: "lookups+scans+stat+string+marshal", false: "lookups+scans"}[all]})
		}
	}
	ctx.Count("histories", int64(len(seqs)))
}

// ---------------------------------------------------------------------------
// C07 — incompatible versions and interrupted writes
// ---------------------------------------------------------------------------

var compatVersions = []string{"1.0.0", "0.5.8", "0.5.9", "0.5.10", "0.5.11", "0.5.12"}

// version classes: "compat", "either", "reject"
func versionClass(v string) string {
	for _, c := range compatVersions {
		if v == c {
			return "compat"
		}
		if strings.HasPrefix(v, c+"+") {
			return "either" // semver ignores build metadata
		}
	}
	return "reject"
}

func fixedVersionList() []string {
	vs := []string{}
	for i := 0; i <= 7; i++ {
		vs = append(vs, fmt.Sprintf("0.5.%d", i))
	}
	for i := 13; i <= 20; i++ {
		vs = append(vs, fmt.Sprintf("0.5.%d", i))
	}
	vs = append(vs, "0.5.100", "0.5.120", "0.5.121", "0.5.1", "0.5.80", "0.5.90", "0.5.110",
		"0.6.0", "0.6.12", "0.7.0", "0.10.0", "0.50.0", "0.55.12", "1.0.1", "1.0.10", "1.1.0", "1.5.12", "2.0.0", "2.5.12", "10.0.0", "1.0.00",
		"0.4.3", "0.4.12", "0.0.0", "0.0.1", "0.2.0",
		"0.5.12-rc1", "0.5.12-alpha", "0.5.12-0", "1.0.0-beta", "0.5.13-rc1", "0.5.10-pre", "0.5.8-1",
		"", "0", "0.5", "0.5.", ".5.12", "0..12", "0.5.12.0", "0.5.12.1", "a.b.c", "garbage", "v0.5.12", "V1.0.0", " 0.5.12", "0.5.12 ", "0.5.12\n", "0,5,12",
		"00.5.12", "0.05.12", "0.5.012", "01.0.0", "1.00.0", "+0.5.12", "-0.5.12", "0.5.-12", "0x0.5.12", "０.5.12",
		"0.5\x00.12", "0\x00.5.12", "0.5.12\x00x", "1.0.0\x001",
		"1234567890.12.34", "0.5.12345678901", "99999999999.0.0", "9999999999999999", "0.5.12-abcdefghi", "1.0.0-0.0.0.0.0.0",
		"\xff\xff\xff\xff", "0.5.\xff", "1.0.\x80",
		"0.5.12+build", "0.5.12+1", "1.0.0+x", "0.5.9+meta.1", "0.5.12+", "0.5.12+a+b")
	vs = append(vs, aliasVersions()...)
	return vs
}

// aliasVersions: strings that are different versions but collapse onto a
// compatible one if the three numbers are ever packed into one integer, or
// truncated to a machine width, on the way to the comparison: a component
// grown by 2^k, and the same packed value spelled with a carry moved between
// components, for binary and decimal radices.
func aliasVersions() []string {
	seen := map[string]bool{}
	var out []string
	add := func(M, m, p uint64) {
		s := fmt.Sprintf("%d.%d.%d", M, m, p)
		if len(s) <= 16 && !seen[s] && versionClass(s) == "reject" {
			seen[s] = true
			out = append(out, s)
		}
	}
	for _, c := range compatVersions {
		var M, m, p uint64
		fmt.Sscanf(c, "%d.%d.%d", &M, &m, &p)
		for _, k := range []uint{8, 10, 15, 16, 20, 24, 31, 32, 40} {
			add(M+1<<k, m, p)
			add(M, m+1<<k, p)
			add(M, m, p+1<<k)
			add(M+1<<k, m+1<<k, p+1<<k)
		}
		for _, R := range []uint64{10, 100, 1000, 10000, 1 << 8, 1 << 10, 1 << 16, 1 << 20, 1 << 32} {
			if m >= 1 {
				add(M, m-1, p+R)
			}
			if M >= 1 {
				add(M-1, m+R, p)
				add(M-1, m+R-1, p+R)
			}
			add(0, m+M*R, p)
			add(0, 0, (M*R+m)*R+p)
			add(0, M*R+m-1, p+R)
		}
	}
	return out
}

func withVersion(stream []byte, ver string) []byte {
	out := append([]byte{}, stream...)
	for i := 0; i < 16; i++ {
		out[i] = 0
	}
	copy(out[:16], ver)
	return out
}

// emptyBattery checks that the instance answers as an empty trie.
func emptyBattery(st *trie.SlimTrie, qs []string) string {
	why := ""
	pv, _ := try(func() {
		for _, q := range qs {
			if v, f := st.Get(q); f || v != nil {
				why = fmt.Sprintf("Get(%x) = %s,%v", q, show(v), f)
				return
			}
			if id := st.GetID(q); id != -1 {
				why = fmt.Sprintf("GetID(%x) = %d", q, id)
				return
			}
			if v, f := st.RangeGet(q); f || v != nil {
				why = fmt.Sprintf("RangeGet(%x) = %s,%v", q, show(v), f)
				return
			}
			if l, e, r := st.Search(q); l != nil || e != nil || r != nil {
				why = fmt.Sprintf("Search(%x) = %s,%s,%s", q, show(l), show(e), show(r))
				return
			}
		}
		for _, s := range []string{"", qs[0]} {
			n := 0
			st.ScanFrom(s, true, true, func(k, v []byte) bool { n++; return false })
			st.ScanFromTo(s, true, "\xff\xff", true, false, func(k, v []byte) bool { n++; return false })
			if n > 0 {
				why = fmt.Sprintf("scan from %x yielded", s)
				return
			}
			if k, v := st.NewIter(s, false, true)(); k != nil || v != nil {
				why = fmt.Sprintf("NewIter(%x) yielded %x", s, k)
				return
			}
		}
	})
	if pv != nil {
		return "panic: " + fmt.Sprint(pv)
	}
	return why
}

func c07NumCases(tier string) int {
	if tier == "thorough" {
		return 4000
	}
	return 500
}

// c07Stream builds the valid stream of case idx.
func c07Stream(ctx *Ctx, idx int, r *RNG) (stream []byte, layout string, keys []string, enc encode.Encoder, err error) {
	scale := 2
	var ks KeySet
	dir := directedKeySets()
	if idx < len(dir) {
		ks = dir[idx]
		if len(ks.Keys) > 0 && len(ks.Keys[0]) > 5000 {
			ks = KeySet{"small-alpha", genSmallAlpha(r)}
		}
	} else {
		ks = genKeySet(r, scale)
		if idx%37 == 5 && ctx.Tier == "thorough" {
			ks = genKeySet(r, 0)
		}
	}
	// keep streams small enough that every cut is enumerated for most cases
	maxTotal := 0
	for _, k := range ks.Keys {
		maxTotal += len(k)
	}
	if maxTotal > 60000 {
		ks = KeySet{"nibble-dense", genNibbleDense(r, 400)}
	}
	if idx%100 == 57 {
		// a few streams beyond 64 KiB: header/body boundaries and sampled interior cuts
		ks = KeySet{"uniform-large", genUniform(r, 9000)}
		for len(ks.Keys) < 6000 {
			ks = KeySet{"uniform-large", genUniform(r, 9000)}
		}
	}
	if idx%100 == 60 || idx%100 == 62 {
		// streams beyond 1 MiB (encoded values; stored key tails), current
		// layout and 0.5.10/0.5.11: whatever a loader does differently for big
		// bodies must still refuse every cut and leave nothing behind
		ks = genMegabyte(r, map[int]int{60: 0, 62: 1}[idx%100])
	}
	keys = ks.Keys
	n := len(keys)
	kind := []string{"i32", "i32", "none", "i64", "u16", "str16", "bytesN"}[r.Intn(7)]
	lay := idx % 4
	if lay >= 2 && (kind == "none" || kind == "str16") {
		kind = "i32"
	}
	vals := genVals(r, kind, n, r.Intn(3))
	if ks.Family == "mb:values" {
		vals = &ValSpec{Kind: "bytesN", N: r.Range(100, 160), Strs: make([]string, n)}
		for i := range vals.Strs {
			vals.Strs[i] = string(r.Bytes(vals.N))
		}
	}
	enc = vals.Encoder()
	o := allOptSets()[r.Intn(16)]
	switch lay {
	case 0, 1:
		st, e := trie.NewSlimTrie(enc, keys, vals.Slice(), o.Opt())
		if e != nil {
			return nil, "", nil, nil, e
		}
		stream, err = st.Marshal()
		layout = "current-" + o.String()
	case 2:
		m := modes0510[r.Intn(3)]
		st, e := trie.NewSlimTrie(enc, keys, vals.Slice(), m.Opt.Opt())
		if e != nil {
			return nil, "", nil, nil, e
		}
		cur, _ := st.Marshal()
		ver := []string{"0.5.10", "0.5.11"}[r.Intn(2)]
		stream, err = legacyStream0510(cur, ver)
		layout = ver + "-" + m.Name
	case 3:
		variant := oldVariants[r.Intn(len(oldVariants))]
		s, ok := legacyStream3(keys, vals, variant)
		if !ok {
			return nil, "", nil, nil, fmt.Errorf("not encodable")
		}
		stream = s
		layout = "3sec-" + variant
	}
	return
}

func runC07(ctx *Ctx, idx int) {
	r := NewRNG(caseSeed(ctx.Seed, "C07", ctx.Tier, idx))
	stream, layout, keys, enc, err := c07Stream(ctx, idx, r)
	if err != nil {
		ctx.Count("skipped:stream_not_built", 1)
		return
	}
	ctx.Eval()
	ctx.Count("layout:"+strings.SplitN(layout, "-", 2)[0], 1)
	if len(stream) > 1<<20 {
		ctx.Count("streams:beyond_1MiB", 1)
	}
	// sanity: the full stream loads
	if _, lerr, pv, _ := loadTrie(enc, stream); lerr != nil || pv != nil {
		ctx.Violate("C07/valid-stream-rejected/"+layout, map[string]interface{}{"layout": layout, "error": fmt.Sprint(lerr), "panic": fmt.Sprint(pv), "keys_hex": hexKeys(keys, 30)})
		return
	}
	if len(stream) > 32 {
		ctx.Nontrivial(hashStr(string(stream)))
	}
	// the instance held other data before every attempt
	oldKeys := []string{"old", "older", "oldest", "p", "q"}
	qs := append([]string{"", "old", "older", "oldest", "p", "q", "o", "zzz"}, keys[:min(len(keys), 6)]...)
	if len(keys) > 0 {
		qs = append(qs, keys[len(keys)-1], keys[len(keys)/2])
	}
	mkOld := func() *trie.SlimTrie {
		st, err := trie.NewSlimTrie(enc, oldKeys, nil, trie.Opt{Complete: trie.Bool(true)})
		if err != nil {
			panic(err)
		}
		return st
	}
	// ---- cut points
	n := len(stream)
	var cuts []int
	if n <= 65536 {
		for c := 0; c < n; c++ {
			cuts = append(cuts, c)
		}
		ctx.Count("streams:every_cut_enumerated", 1)
	} else {
		seen := map[int]bool{}
		add := func(c int) {
			if c >= 0 && c < n && !seen[c] {
				seen[c] = true
				cuts = append(cuts, c)
			}
		}
		// section boundaries: walk the headers
		off := 0
		for off+32 <= n {
			bodyLen := int(uint64(stream[off+24]) | uint64(stream[off+25])<<8 | uint64(stream[off+26])<<16 | uint64(stream[off+27])<<24)
			for c := off; c < off+32+64; c++ {
				add(c)
			}
			for c := off + 32 + bodyLen - 64; c <= off+32+bodyLen; c++ {
				add(c)
			}
			off += 32 + bodyLen
		}
		for t := 0; t < 2000; t++ {
			add(r.Intn(n))
		}
		ctx.Count("streams:sampled_cuts", 1)
	}
	useGuard := ctx.Tier == "thorough" || idx%4 == 0
	st := mkOld()
	var spare []byte
	for ci, c := range cuts {
		if ci&255 == 0 {
			ctx.Beat()
		}
		var buf []byte
		var g *Guard
		if useGuard && (n <= 4096 || ci%16 == 0) {
			g = NewGuard(stream[:c])
			g.ReadOnly()
			buf = g.Buf
			ctx.Count("cuts:guard_paged", 1)
		} else if ci%3 == 1 {
			// a read buffer that still holds more than was read: the bytes behind
			// len (here: the rest of the valid stream) are not part of the input
			if spare == nil {
				spare = append([]byte{}, stream...)
			}
			buf = spare[:c]
			ctx.Count("cuts:with_spare_capacity", 1)
		} else {
			buf = append([]byte{}, stream[:c]...)
		}
		var lerr error
		pv, stack := try(func() { lerr = st.Unmarshal(buf) })
		if g != nil {
			g.NoAccess()
		}
		bad := ""
		ex := map[string]interface{}{"layout": layout, "stream_len": n, "cut": c, "keys_hex": hexKeys(keys, 30)}
		if pv != nil {
			bad = "cut-panic"
			ex["panic"], ex["stack"] = fmt.Sprint(pv), stack
		} else if lerr == nil {
			bad = "cut-accepted"
		} else if why := emptyBattery(st, qs); why != "" {
			bad = "cut-not-empty-after-reject"
			ex["why"] = why
		}
		if g != nil {
			g.Free()
		}
		if bad != "" {
			ctx.Violate("C07/"+bad+"/"+strings.SplitN(layout, "-", 2)[0], ex)
			break
		}
		// the same instance is reused for the next cut after being refilled
		// every 64 cuts (it must hold data before the attempt)
		if ci%64 == 63 {
			st = mkOld()
		} else if ci%8 == 0 {
			st.Unmarshal(stream)
		}
	}
	ctx.Count("cuts", int64(len(cuts)))
	// ---- version strings
	vs := fixedVersionList()
	for t := 0; t < 30; t++ {
		switch r.Intn(4) {
		case 0:
			vs = append(vs, fmt.Sprintf("%d.%d.%d", r.Intn(3), r.Intn(12), r.Intn(30)))
		case 1:
			vs = append(vs, string(r.Bytes(r.Range(1, 16))))
		case 2:
			// 16 bytes, not terminated
			s := fmt.Sprintf("%d.%d.%d", r.Intn(100000), r.Intn(100000), r.Intn(100000))
			for len(s) < 16 {
				s += "9"
			}
			vs = append(vs, s[:16])
		case 3:
			b := []byte(compatVersions[r.Intn(len(compatVersions))])
			b[r.Intn(len(b))] ^= byte(1 << uint(r.Intn(8)))
			vs = append(vs, string(b))
		}
	}
	for _, v := range vs {
		if len(v) > 16 {
			continue
		}
		// the header keeps 16 bytes with trailing NULs trimmed
		eff := strings.TrimRight(v, "\x00")
		cls := versionClass(eff)
		if cls == "compat" {
			continue // another layout behind a compatible header is outside the property
		}
		st := mkOld()
		s2 := withVersion(stream, v)
		var lerr error
		pv, stack := try(func() { lerr = st.Unmarshal(s2) })
		ctx.Count("versions:"+cls, 1)
		ex := map[string]interface{}{"layout": layout, "version": v, "version_hex": hex.EncodeToString([]byte(v)), "keys_hex": hexKeys(keys, 20)}
		if cls == "either" {
			if pv != nil {
				ex["panic"], ex["stack"] = fmt.Sprint(pv), stack
				ctx.Violate("C07/version-panic/"+strings.SplitN(layout, "-", 2)[0], ex)
			}
			continue
		}
		if pv != nil {
			ex["panic"], ex["stack"] = fmt.Sprint(pv), stack
			ctx.Violate("C07/version-panic/"+strings.SplitN(layout, "-", 2)[0], ex)
			continue
		}
		if lerr == nil {
			ctx.Violate("C07/incompatible-version-accepted/"+strings.SplitN(layout, "-", 2)[0], ex)
			continue
		}
		if errors.Cause(lerr) != trie.ErrIncompatible {
			ex["error"] = lerr.Error()
			ctx.Violate("C07/wrong-error-for-incompatible-version/"+strings.SplitN(layout, "-", 2)[0], ex)
			continue
		}
		if why := emptyBattery(st, qs); why != "" {
			ex["why"] = why
			ctx.Violate("C07/version-not-empty-after-reject/"+strings.SplitN(layout, "-", 2)[0], ex)
			continue
		}
		// also through proto.Unmarshal
		st2 := mkOld()
		pv, _ = try(func() { lerr = proto.Unmarshal(s2, st2) })
		if pv != nil || lerr == nil || errors.Cause(lerr) != trie.ErrIncompatible {
			ex["via"], ex["error"], ex["panic"] = "proto.Unmarshal", fmt.Sprint(lerr), fmt.Sprint(pv)
			ctx.Violate("C07/incompatible-version-accepted/"+strings.SplitN(layout, "-", 2)[0], ex)
		}
	}
	// ---- a stream offered to a receiver that cannot interpret its values: an
	// old layout without recorded value sizes, loaded into an instance created
	// with an encoder of another width. Whether that is refused is not stated
	// anywhere (today it is not); but IF the load returns an error, it is a
	// rejected load like any other: no panic, and the instance is empty.
	if strings.HasPrefix(layout, "0.5.1") || strings.HasPrefix(layout, "3sec") {
		for _, other := range []encode.Encoder{encode.I64{}, encode.I16{}, encode.I8{}, encode.Bytes{Size: 3}} {
			same := true
			try(func() { same = other.GetEncodedSize(nil) == enc.GetEncodedSize(nil) })
			if same {
				continue
			}
			st, e0 := trie.NewSlimTrie(other, oldKeys, nil, trie.Opt{Complete: trie.Bool(true)})
			if e0 != nil {
				continue
			}
			var lerr error
			pv, stack := try(func() { lerr = st.Unmarshal(stream) })
			ex := map[string]interface{}{"layout": layout, "receiver_encoder": fmt.Sprintf("%T", other), "stream_encoder": fmt.Sprintf("%T", enc), "keys_hex": hexKeys(keys, 20)}
			if pv != nil {
				ctx.Count("other_width_receiver:panicked", 1) // outside the statement: the data cannot be interpreted, nothing is promised about how
				continue
			}
			if lerr == nil {
				ctx.Count("other_width_receiver:loaded", 1)
				continue
			}
			ctx.Count("other_width_receiver:refused", 1)
			_ = stack
			if why := emptyBattery(st, qs); why != "" {
				ex["why"], ex["error"] = why, lerr.Error()
				ctx.Violate("C07/refused-not-empty-after-reject/"+strings.SplitN(layout, "-", 2)[0], ex)
			}
		}
	}
	if ctx.WantSample() && len(keys) >= 2 && len(keys) <= 8 {
		ctx.Sample(map[string]interface{}{"layout": layout, "keys_hex": hexKeys(keys, 8), "stream_len": n, "cuts_enumerated": len(cuts), "versions_tried": len(vs)})
	}
}

// ---------------------------------------------------------------------------
// C20 — build and load neither modify nor alias caller-owned memory
// ---------------------------------------------------------------------------

func c20NumCases(tier string) int {
	if tier == "thorough" {
		return 12000
	}
	return 600
}

// sameFloatBits: float slices compared by bit pattern (+0 and -0 are equal
// under == and under reflect.DeepEqual).
func sameFloatBits(a, b interface{}) bool {
	x, ok1 := a.([]float64)
	y, ok2 := b.([]float64)
	if !ok1 || !ok2 {
		return true
	}
	if len(x) != len(y) {
		return false
	}
	for i := range x {
		if math.Float64bits(x[i]) != math.Float64bits(y[i]) {
			return false
		}
	}
	return true
}

func scribble(b []byte, how int, r *RNG) {
	switch how {
	case 0:
		for i := range b {
			b[i] = 0
		}
	case 1:
		for i := range b {
			b[i] = 0xff
		}
	default:
		copy(b, r.Bytes(len(b)))
	}
}

// guardedKeys places key bytes, the string-header array and nothing else in a
// read-only mapping; returns the []string living there.
func guardedKeys(keys []string) ([]string, *Guard, *Guard) {
	total := 0
	for _, k := range keys {
		total += len(k)
	}
	gb := NewGuard(make([]byte, total))
	hdrBytes := len(keys) * int(unsafe.Sizeof(reflect.StringHeader{}))
	gh := NewGuard(make([]byte, hdrBytes+16))
	// align the header array to 8 bytes inside the guarded payload
	base := uintptr(unsafe.Pointer(&gh.Buf[0]))
	pad := int((8 - base%8) % 8)
	off := 0
	var gkeys []string
	if len(keys) > 0 {
		hdrs := (*[1 << 28]reflect.StringHeader)(unsafe.Pointer(&gh.Buf[pad]))[:len(keys):len(keys)]
		for i, k := range keys {
			copy(gb.Buf[off:], k)
			if len(k) > 0 {
				hdrs[i].Data = uintptr(unsafe.Pointer(&gb.Buf[off]))
			} else {
				hdrs[i].Data = 0
			}
			hdrs[i].Len = len(k)
			off += len(k)
		}
		sh := (*reflect.SliceHeader)(unsafe.Pointer(&gkeys))
		sh.Data = uintptr(unsafe.Pointer(&gh.Buf[pad]))
		sh.Len = len(keys)
		sh.Cap = len(keys)
	}
	gb.ReadOnly()
	gh.ReadOnly()
	return gkeys, gb, gh
}

func runC20(ctx *Ctx, idx int) {
	r := NewRNG(caseSeed(ctx.Seed, "C20", ctx.Tier, idx))
	var ks KeySet
	dir := directedKeySets()
	if idx < len(dir) {
		ks = dir[idx]
	} else {
		ks = genKeySet(r, 2)
	}
	keys := ks.Keys
	n := len(keys)
	lay := idx % 4
	kind := pickKind(r)
	if lay >= 2 {
		kind = legacyKinds[r.Intn(len(legacyKinds))]
	}
	vals := genVals(r, kind, n, r.Intn(5))
	if lay < 2 && idx%9 == 4 && n > 0 {
		vals = genVals(r, "f64", n, r.Intn(5)) // float values, heavy on the two zeros
	}
	if vals.Kind == "f64" {
		ctx.Count("valkind_in_snapshots:f64", 1)
	}
	lc := &LCase{Family: ks.Family, Keys: keys, Vals: vals, R: r}
	ctx.Eval()
	if n >= 2 {
		ctx.Nontrivial(mix(lc.hash(), uint64(lay)))
	}
	o := allOptSets()[r.Intn(16)]
	viol := func(clause string, ex map[string]interface{}) {
		d := lc.describe()
		d["opt"] = o.String()
		for k, v := range ex {
			d[k] = v
		}
		ctx.Violate("C20/"+clause, d)
	}
	enc := vals.Encoder()
	qs := genQueries(r.Fork(), keys, 300)
	if len(qs) > 400 {
		qs = append(qs[:60], qs[len(qs)-340:]...)
	}
	starts := pickStarts(r, qs, 3)

	// ---- 1a. build must not modify keys / values / options (accepted and rejected input)
	for pass := 0; pass < 3; pass++ {
		inKeys := deepCopyKeys(keys)
		pvals := vals
		if pass == 2 {
			// a third kind of input: keys that share more than a step can count
			// (refused with ErrKeyTooLong unless inner prefixes are stored) - an
			// error path of its own, or whatever is done instead of failing
			if idx%4 != 3 || n < 3 {
				break
			}
			run := strings.Repeat("x", []int{32768, 33000, 70000}[(idx/4)%3])
			inKeys = []string{"a" + run + "1", "a" + run + "2", "b"}
			pvals = vals.Prefix(3)
			ctx.Count("over_long_builds_snapshotted", 1)
		}
		if pass == 1 {
			if n < 2 {
				break
			}
			// a rejected input: swap two neighbours / reverse
			if r.Bool() {
				p := r.Intn(n - 1)
				inKeys[p], inKeys[p+1] = inKeys[p+1], inKeys[p]
			} else {
				for i, j := 0, n-1; i < j; i, j = i+1, j-1 {
					inKeys[i], inKeys[j] = inKeys[j], inKeys[i]
				}
			}
		}
		snapKeys := deepCopyKeys(inKeys)
		inVals := pvals.Slice()
		snapVals := pvals.Slice() // independent deep copy
		opt := o.Opt()
		if r.Chance(1, 3) {
			opt, _ = triOpt(r.Intn(81))
		}
		if pass == 2 && r.Bool() {
			// spelled out, inner prefixes explicitly off
			opt = trie.Opt{DedupValue: trie.Bool(r.Bool()), InnerPrefix: trie.Bool(false), LeafPrefix: trie.Bool(r.Bool()), Complete: trie.Bool(false)}
		}
		ptrs := []*bool{opt.DedupValue, opt.InnerPrefix, opt.LeafPrefix, opt.Complete}
		pointees := []bool{}
		for _, p := range ptrs {
			if p != nil {
				pointees = append(pointees, *p)
			} else {
				pointees = append(pointees, false)
			}
		}
		optSnap := opt
		// every other build hands the options over as a caller-owned slice
		// (opts...): then the variadic parameter IS the caller's memory
		var err error
		var pv interface{}
		var stack string
		if (idx+pass)%2 == 0 {
			_, err, pv, stack = buildTrie(enc, inKeys, inVals, opt)
		} else {
			// ... a window of a larger table of presets: what lies behind the
			// window (within its capacity) is the caller's as well
			sentinel := trie.Opt{DedupValue: trie.Bool(false), InnerPrefix: trie.Bool(true), LeafPrefix: trie.Bool(true), Complete: trie.Bool(true)}
			table := []trie.Opt{sentinel, opt, sentinel, sentinel}
			optSlice := table[1:2]
			if idx%4 >= 2 {
				optSlice = table[1:2:2]
			}
			if idx%8 == 5 || idx%8 == 7 {
				// a list of several option structs (only the first counts, the rest
				// is the caller's all the same): empty place holders in front of,
				// between and behind the one that is filled in
				multi := [][]trie.Opt{{{}, opt}, {opt, {}}, {{}, {}, opt, {}}, {opt, sentinel}}[(idx/8)%4]
				msnap := append([]trie.Opt{}, multi...)
				try(func() { trie.NewSlimTrie(enc, inKeys, inVals, multi...) })
				for i := range multi {
					if multi[i] != msnap[i] {
						viol("option-slice-modified", map[string]interface{}{"input_valid": pass == 0, "what": "a list of several option structs was rearranged by the build", "element": i,
							"before": fmt.Sprintf("%+v", msnap), "after": fmt.Sprintf("%+v", multi)})
						break
					}
				}
				ctx.Count("builds_with_a_list_of_several_option_structs", 1)
			}
			pv, stack = try(func() { _, err = trie.NewSlimTrie(enc, inKeys, inVals, optSlice...) })
			if table[1] != optSnap || table[0] != sentinel || table[2] != sentinel || table[3] != sentinel ||
				!*sentinel.InnerPrefix || !*sentinel.LeafPrefix || !*sentinel.Complete || *sentinel.DedupValue {
				viol("option-slice-modified", map[string]interface{}{"input_valid": pass == 0, "spare_capacity": cap(optSlice) > len(optSlice),
					"before": fmt.Sprintf("%+v", optSnap), "after": fmt.Sprintf("%+v", table[1]), "neighbours_intact": table[0] == sentinel && table[2] == sentinel && table[3] == sentinel})
			}
			ctx.Count("builds_with_caller_owned_option_slice", 1)
		}
		if pv != nil {
			viol("build-panic", map[string]interface{}{"panic": fmt.Sprint(pv), "stack": stack, "input_valid": pass == 0})
			continue
		}
		if pass == 0 && err != nil {
			viol("build-error", map[string]interface{}{"error": err.Error()})
		}
		if pass == 2 {
			ctx.Count(fmt.Sprintf("over_long_build_refused:%v", err != nil), 1)
		}
		if pass == 1 && err == nil {
			ctx.Count("note:rejected-input-was-accepted", 1) // C08's business
		}
		if !reflect.DeepEqual(inKeys, snapKeys) {
			viol("key-slice-modified", map[string]interface{}{"input_valid": pass == 0, "after_hex": hexKeys(inKeys, 20), "before_hex": hexKeys(snapKeys, 20)})
		}
		if !reflect.DeepEqual(inVals, snapVals) || !sameFloatBits(inVals, snapVals) {
			viol("value-slice-modified", map[string]interface{}{"input_valid": pass == 0})
		}
		if opt != optSnap {
			viol("option-struct-modified", map[string]interface{}{"input_valid": pass == 0})
		}
		for i, p := range ptrs {
			if p != nil && *p != pointees[i] {
				viol("option-pointee-modified", map[string]interface{}{"field": i})
			}
		}
		ctx.Count("builds_snapshotted", 1)
	}

	// ---- 1a'. a built trie does not alias the caller's value buffers: with
	// encoders that hand their argument through (encode.Bytes, or a user's
	// variable-size one) the caller's bytes are what the builder is given;
	// recycling those buffers after the build must not change any answer.
	// Shapes: general, all equal (one stored value under de-duplication), all
	// empty but one, a single key.
	if n > 0 {
		shape := idx % 4
		bkeys := keys
		if shape == 3 {
			bkeys = keys[:1]
		}
		fixed := (idx/4)%2 == 0
		size := r.Range(1, 9)
		bvals := make([][]byte, len(bkeys))
		one := r.Intn(len(bkeys))
		for i := range bvals {
			switch {
			case shape == 1 && i > 0:
				bvals[i] = append([]byte{}, bvals[0]...)
			case shape == 2 && !fixed && i != one:
				bvals[i] = []byte{}
			case fixed:
				bvals[i] = r.Bytes(size)
			default:
				bvals[i] = r.Bytes(r.Range(1, 12))
			}
		}
		var benc encode.Encoder = encode.Bytes{Size: size}
		if !fixed {
			benc = PassBytes{}
		}
		bst, berr, bpv, bstack := buildTrie(benc, bkeys, bvals, o.Opt())
		if bpv != nil || berr != nil {
			viol("build-failed", map[string]interface{}{"what": "byte-slice values", "fixed_size": fixed, "shape": shape, "panic": fmt.Sprint(bpv), "error": fmt.Sprint(berr), "stack": bstack})
		} else {
			bqs := qs
			if shape == 3 {
				bqs = append([]string{bkeys[0]}, qs[:min(len(qs), 20)]...)
			}
			before := digestAll(bst, bqs, starts)
			for how := 0; how < 3; how++ {
				for _, b := range bvals {
					scribble(b, how, r)
				}
				after := digestAll(bst, bqs, starts)
				if which := before.diff(after, true); which != "" {
					viol("value-buffer-retained", map[string]interface{}{"component": which, "fixed_size": fixed, "shape": []string{"general", "all-equal", "all-empty-but-one", "single-key"}[shape],
						"what": "overwriting the caller's value buffers after NewSlimTrie returned changed what the trie answers", "overwrite": []string{"0x00", "0xff", "random"}[how]})
					break
				}
			}
			ctx.Count("value_buffer_overwrites_checked", 1)
			ctx.Count(fmt.Sprintf("value_buffer_shape:%d", shape), 1)
		}
	}

	// ---- 1a'-numeric. the caller's value slice is its own too when it holds
	// numbers: a batch loader refills the same []int32 / []uint64 for the next
	// index. Flat key sets (every leaf on one level, met in key order) and the
	// case's own keys, each with the matching bundled little-endian encoder.
	if idx%4 == 1 {
		for pass := 0; pass < 2; pass++ {
			nkeys := keys
			if pass == 1 {
				nkeys = nil
				w := 1 + idx%3
				for i := 0; i < 40+idx%200; i++ {
					b := make([]byte, w)
					x := i * 3
					for j := w - 1; j >= 0; j-- {
						b[j] = byte(x)
						x >>= 8
					}
					nkeys = append(nkeys, string(b))
				}
				nkeys = sortUniq(nkeys)
			}
			if len(nkeys) == 0 {
				continue
			}
			nk := []string{"i16", "i32", "i64", "u16", "u32", "u64"}[(idx/4+pass)%6]
			nv := genVals(r, nk, len(nkeys), 0)
			sl := nv.Slice()
			nst, nerr, npv, _ := buildTrie(nv.Encoder(), nkeys, sl, o.Opt())
			if npv != nil || nerr != nil {
				continue
			}
			nqs := nkeys
			if len(nqs) > 300 {
				nqs = nqs[:300]
			}
			before := digestAll(nst, nqs, []string{""})
			rv := reflect.ValueOf(sl)
			for i := 0; i < rv.Len(); i++ {
				e := rv.Index(i)
				if e.Kind() >= reflect.Int && e.Kind() <= reflect.Int64 {
					e.SetInt(^e.Int())
				} else {
					e.SetUint(^e.Uint())
				}
			}
			after := digestAll(nst, nqs, []string{""})
			if which := before.diff(after, true); which != "" {
				viol("value-buffer-retained", map[string]interface{}{"component": which, "shape": "numeric value slice", "element_type": nk, "flat_key_set": pass == 1,
					"what": "overwriting the caller's numeric value slice after NewSlimTrie returned changed what the trie answers"})
			}
			ctx.Count("numeric_value_slices_overwritten_after_build", 1)
		}
	}

	// ---- 1a''. values that are windows of one caller-owned block (records
	// parsed in place): what lies behind each value - the next record - is the
	// caller's too. Values shorter than the encoder's fixed size are outside
	// what the encoder promises to read back, so only the build is observed:
	// it may fail, it must not write.
	if n > 0 && idx%3 == 0 {
		size := r.Range(2, 9)
		// every other block is sized by its total: a payload of a few KiB up to
		// a few hundred KiB, whatever the number of keys
		if idx%2 == 1 {
			size = []int{4200, 9000, 70000, 300000}[(idx/6)%4]/n + 2
			if size > 3000 {
				size = 3000
			}
		}
		block := r.Bytes(n*size + 16)
		keepBlock := append([]byte{}, block...)
		bvals := make([][]byte, n)
		short := false
		for i := range bvals {
			l := size
			if idx%6 == 0 && r.Chance(1, 3) {
				l = r.Intn(size) // shorter than the fixed size
				short = true
			}
			// plain two-index slicing: the capacity of every value reaches to
			// the end of the block, over all the values behind it
			bvals[i] = block[i*size : i*size+l]
		}
		var bst *trie.SlimTrie
		var berr error
		bpv, _ := try(func() { bst, berr = trie.NewSlimTrie(encode.Bytes{Size: size}, keys, bvals, o.Opt()) })
		if !bytes.Equal(block, keepBlock) {
			p := 0
			for block[p] == keepBlock[p] {
				p++
			}
			viol("value-block-modified", map[string]interface{}{"what": "values were windows of one block; the build wrote into the block", "first_diff_at": p, "value_size": size, "with_short_values": idx%6 == 0})
		} else if !short && bpv == nil && berr == nil && bst != nil {
			// ... and the caller goes on to reuse its block for the next batch
			bqs := qs[:min(len(qs), 120)]
			before := digestAll(bst, bqs, starts)
			for how := 0; how < 2; how++ {
				scribble(block, how*2, r)
				after := digestAll(bst, bqs, starts)
				if which := before.diff(after, true); which != "" {
					viol("value-buffer-retained", map[string]interface{}{"component": which, "shape": "windows of one block", "value_size": size, "payload_bytes": n * size,
						"what": "overwriting the caller's value block after NewSlimTrie returned changed what the trie answers"})
					break
				}
			}
			ctx.Count("value_blocks_overwritten_after_build", 1)
			if n*size >= 4096 {
				ctx.Count("value_blocks_overwritten_after_build:4KiB+", 1)
			}
			if n*size >= 65536 {
				ctx.Count("value_blocks_overwritten_after_build:64KiB+", 1)
			}
		}
		ctx.Count("value_blocks_compared", 1)
	}

	// ---- the stream under test
	var stream []byte
	layout := ""
	st0, err, pv, _ := buildTrie(enc, keys, vals.Slice(), o.Opt())
	if pv != nil || err != nil {
		return
	}
	switch lay {
	case 0, 1:
		stream, _ = st0.Marshal()
		layout = "current"
	case 2:
		m := modes0510[r.Intn(3)]
		o = m.Opt
		stx, err := trie.NewSlimTrie(enc, keys, vals.Slice(), o.Opt())
		if err != nil {
			return
		}
		cur, _ := stx.Marshal()
		stream, err = legacyStream0510(cur, "0.5.10")
		if err != nil {
			return
		}
		layout = "0.5.10-" + m.Name
		if classify(parseSlim(cur)).HalfBytePrefix+classify(parseSlim(cur)).AlignedPrefix > 0 {
			ctx.Count("0510_streams_with_prefixes_to_reencode", 1)
		}
	case 3:
		variant := oldVariants[r.Intn(len(oldVariants))]
		s, ok := legacyStream3(keys, vals, variant)
		if !ok {
			return
		}
		stream = s
		layout = "3sec-" + variant
	}
	ctx.Count("layout:"+strings.SplitN(layout, "-", 2)[0], 1)

	// ---- 1b. Unmarshal must neither modify nor retain the input buffer
	{
		buf := append([]byte{}, stream...)
		ld, lerr, pv, stack := loadTrie(enc, buf)
		if pv != nil || lerr != nil {
			viol("load-failed", map[string]interface{}{"layout": layout, "panic": fmt.Sprint(pv), "error": fmt.Sprint(lerr), "stack": stack})
			return
		}
		if !bytes.Equal(buf, stream) {
			p := 0
			for p < len(buf) && buf[p] == stream[p] {
				p++
			}
			viol("unmarshal-modified-input", map[string]interface{}{"layout": layout, "first_diff_at": p})
		}
		before := digestAll(ld, qs, starts)
		for how := 0; how < 3; how++ {
			scribble(buf, how, r)
			after := digestAll(ld, qs, starts)
			if which := before.diff(after, true); which != "" {
				viol("input-buffer-retained", map[string]interface{}{"layout": layout, "component": which, "overwrite": []string{"0x00", "0xff", "random"}[how]})
				break
			}
		}
		ctx.Count("input_overwrites_checked", 1)
		// ---- 1c'. bytes handed out by Marshal belong to the caller: later
		// Marshal calls (of this or of another trie) must not rewrite them
		if o1, e1 := ld.Marshal(); e1 == nil {
			keep1 := append([]byte{}, o1...)
			o2, _ := st0.Marshal()
			keep2 := append([]byte{}, o2...)
			o3, _ := ld.Marshal()
			empty, _ := trie.NewSlimTrie(enc, nil, nil)
			o4, _ := empty.Marshal()
			_ = o4
			if !bytes.Equal(o1, keep1) || !bytes.Equal(o2, keep2) || !bytes.Equal(o3, keep1) {
				viol("marshal-output-rewritten-by-later-marshal", map[string]interface{}{"layout": layout,
					"first_intact": bytes.Equal(o1, keep1), "second_intact": bytes.Equal(o2, keep2)})
			}
			ctx.Count("marshal_outputs_kept_alive", 1)
		}
		// ---- 1c. Marshal output is independent of the trie
		out, merr := ld.Marshal()
		if merr == nil {
			keep := append([]byte{}, out...)
			for how := 0; how < 3; how++ {
				scribble(out, how, r)
				after := digestAll(ld, qs, starts)
				out2, _ := ld.Marshal()
				if which := before.diff(after, true); which != "" || !bytes.Equal(out2, keep) {
					viol("marshal-output-aliased", map[string]interface{}{"layout": layout, "component": which, "remarshal_equal": bytes.Equal(out2, keep)})
					break
				}
				out = out2
			}
			ctx.Count("output_overwrites_checked", 1)
		}
	}

	// ---- 1d. a load that FAILS must not have written to the buffer either: a
	// caller that reads a file in pieces tries early, completes the read and
	// tries again; truncated at several points and with a foreign version, as a
	// short view of a longer buffer
	{
		full := append([]byte{}, stream...)
		ld, _ := trie.NewSlimTrie(enc, nil, nil)
		cutsAt := []int{len(stream) - 1, len(stream) / 2, 40, 33, 31, 24, 8, 0}
		if len(stream) > 200 {
			cutsAt = append(cutsAt, len(stream)-33, 32+r.Intn(len(stream)-32), 32+r.Intn(len(stream)-32))
		}
		for _, c := range cutsAt {
			if c < 0 || c >= len(stream) {
				continue
			}
			var lerr error
			pv, _ := try(func() { lerr = ld.Unmarshal(full[:c]) })
			if !bytes.Equal(full, stream) {
				p := 0
				for p < len(full) && full[p] == stream[p] {
					p++
				}
				viol("failed-unmarshal-modified-input", map[string]interface{}{"layout": layout, "cut": c, "first_diff_at": p, "error": fmt.Sprint(lerr), "panic": fmt.Sprint(pv)})
				copy(full, stream)
				break
			}
			ctx.Count("failed_loads_buffer_compared", 1)
		}
		bad := withVersion(stream, "9.9.9")
		keep := append([]byte{}, bad...)
		try(func() { ld.Unmarshal(bad) })
		if !bytes.Equal(bad, keep) {
			viol("failed-unmarshal-modified-input", map[string]interface{}{"layout": layout, "what": "incompatible version"})
		}
		// and the complete stream still loads from the very buffer that was offered in pieces
		var lerr error
		pv, _ := try(func() { lerr = ld.Unmarshal(full) })
		if pv != nil || lerr != nil {
			viol("completed-stream-does-not-load-after-early-attempts", map[string]interface{}{"layout": layout, "error": fmt.Sprint(lerr), "panic": fmt.Sprint(pv)})
		}
	}

	// ---- 2. guard pages
	if ctx.Tier == "thorough" || idx%3 == 0 {
		g := NewGuard(stream)
		g.ReadOnly()
		var ld *trie.SlimTrie
		var lerr error
		pv, stack := try(func() {
			ld, _ = trie.NewSlimTrie(enc, nil, nil)
			lerr = ld.Unmarshal(g.Buf)
		})
		if pv != nil {
			viol("fault-during-unmarshal", map[string]interface{}{"layout": layout, "panic": fmt.Sprint(pv), "stack": stack, "what": "store into (or read beyond) the caller's read-only, guard-paged buffer"})
		} else if lerr == nil {
			g.NoAccess()
			var d fullDigest
			pv, stack := try(func() { d = digestAll(ld, qs, starts) })
			_ = d
			if pv != nil {
				viol("fault-after-unmarshal", map[string]interface{}{"layout": layout, "panic": fmt.Sprint(pv), "stack": stack})
			} else {
				// digest components record recovered panics as text
				for _, comp := range []string{d.Lookups, d.Stat, d.Str, d.Marshal} {
					if strings.Contains(comp, "fault address") || strings.Contains(comp, "unexpected fault") {
						viol("fault-after-unmarshal", map[string]interface{}{"layout": layout, "what": "a later call touched the input buffer (inaccessible after Unmarshal returned)", "digest": truncate(comp, 300)})
						break
					}
				}
				if strings.Contains(d.Scans, "fault address") {
					viol("fault-after-unmarshal", map[string]interface{}{"layout": layout, "what": "a scan touched the input buffer", "digest": truncate(d.Scans, 300)})
				}
			}
			ctx.Count("guarded_streams", 1)
		}
		g.Free()
		// keys and the key-slice headers in write-protected memory
		if n > 0 {
			gkeys, gb, gh := guardedKeys(keys)
			var stg *trie.SlimTrie
			pv, stack := try(func() {
				stg, err = trie.NewSlimTrie(enc, gkeys, vals.Slice(), o.Opt())
				if err == nil && stg != nil {
					for _, k := range gkeys[:min(n, 50)] {
						stg.Get(k)
						stg.Search(k)
					}
				}
				// and a rejected input
				if n >= 2 {
					rev := make([]string, n)
					for i := range rev {
						rev[i] = keys[n-1-i]
					}
					rk, rb, rh := guardedKeys(rev)
					trie.NewSlimTrie(enc, rk, vals.Slice(), o.Opt())
					rb.Free()
					rh.Free()
				}
			})
			if pv != nil {
				viol("fault-on-caller-keys", map[string]interface{}{"panic": fmt.Sprint(pv), "stack": stack, "what": "store into the caller's write-protected key bytes or key slice"})
			}
			ctx.Count("guarded_key_sets", 1)
			gb.Free()
			gh.Free()
		}
	}
	if ctx.WantSample() && n >= 2 && n <= 8 {
		d := lc.describe()
		d["layout"], d["stream_len"], d["opt"] = layout, len(stream), o.String()
		ctx.Sample(d)
	}
}

func init() {
	register(&CheckDef{
		ID: "C05", Level: "exploration",
		Rule:     "two case kinds: (a) (key list, value list+encoder) x option sets: Marshal of 5 independent builds from equal (deep-copied) input byte-identical, Marshal twice equal, proto.Size == len, proto.Marshal == Marshal, and the instance loaded through Unmarshal / proto.Unmarshal gives the same battery digest as the fresh one (Get/GetID/RangeGet/Search over Q(K) false positives included, scans or their refusal, Stat, String, re-Marshal bytes); (b) histories: for a pool of 8 streams sharing one encoder (empty, small, large complete, inner-prefix, 0.5.10 allpref, three-section, truncated, incompatible) every sequence of length <=3 over {Unmarshal(s), proto.Unmarshal(s), Reset} is applied to one instance (in every other history each step is followed by reads through String, Stat, Marshal, proto.Size, lookups and scans, so that memoised results would surface) and its digest compared with a brand-new instance given only the final state (after a failed load: lookups and scans only); non-trivial = key list with >=2 keys, or a history of length >=2; distinct by hash",
		NumCases: c05NumCases,
		Run: func(ctx *Ctx, idx int) {
			ng := c05NumGen(ctx.Tier)
			if idx < ng {
				runC05RoundTrip(ctx, idx)
				return
			}
			j := idx - ng
			runC05History(ctx, j/c05Ops, j%c05Ops)
		},
		MinNontrivial: func(tier string) int {
			if tier == "thorough" {
				return 50000
			}
			return 3000
		},
		Gates: shapeGates("roundtrip_with_leaves_beyond_1MiB", "roundtrip_with_leaf_tails_beyond_1MiB", "roundtrip_with_inner_prefixes_beyond_1MiB", "rebuilds_compared", "roundtrips_equal:Unmarshal", "roundtrips_equal:proto.Unmarshal", "histories", "final_state:empty", "final_state:after_failed_load", "final_state:loaded", "remarshalled_and_reloaded:0.5.10", "remarshalled_and_reloaded:3sec", "loaded_size_equals_length:0.5.10", "loaded_size_equals_length:3sec", "copies_of_loaded_instances_outlive_reloads",
			"shape:with_short_nodes", "shape:with_257bit_nodes", "valkind:str16", "valkind:none"),
		Exhaustive: func(tier string) bool { return false },
		Finish: func(tier string, m *Merged, cov map[string]interface{}) {
			cov["histories_part"] = map[string]interface{}{"pools": c05NumPools(tier), "sequences_per_pool": 17 + 17*17 + 17*17*17, "sequences_executed": m.C("histories"),
				"complete": m.C("histories") == int64(c05NumPools(tier)*(17+17*17+17*17*17)), "what": "every sequence of length <=3 over the 17-operation alphabet, per pool"}
		},
		Assumptions: []string{"panics are part of the digest as text (same panic on both sides compares equal)", "after a failed load only lookups and scans are compared (Stat keeps stale levels there; no property forbids it)"},
	})
	register(&CheckDef{
		ID: "C07", Level: "fault_enumeration", HangIsViolation: true, HangSeconds: 300, MemoryIsViolation: true,
		Rule:          "case = one valid stream (current format under a random option set, 0.5.10/0.5.11 nopref/innpref/allpref, three-section variants) of a generated key/value list; faults: Unmarshal(stream[:cut]) for EVERY cut 0..len-1 (streams <= 64 KiB; larger: every cut in each header, the first/last 64 bytes of each body and 2000 seeded interior cuts), into an instance that holds other data, part of them from a read-only buffer right-aligned against a guard page; and the header version replaced by each string of a fixed list (released 0.5.x outside the compatible set, successors, 0.6+, 1.0.1+, 2.x, pre-releases, malformed, leading zeros, embedded NUL, 16 bytes unterminated, non-UTF8) plus 30 seeded strings; oracle: cut => non-nil error, no panic; incompatible version => errors.Cause == ErrIncompatible (also via proto.Unmarshal); afterwards every lookup reports not-found/nil/-1 and every scan entry point yields nothing; build-metadata variants of compatible versions may go either way; non-trivial = stream with a body; distinct by stream hash",
		NumCases:      c07NumCases,
		Run:           runC07,
		MinNontrivial: func(tier string) int { return 100 },
		Gates:         shapeGates("cuts", "cuts:guard_paged", "streams:every_cut_enumerated", "streams:sampled_cuts", "versions:reject", "versions:either", "layout:current", "layout:0.5.10", "layout:0.5.11", "layout:3sec"),
		Exhaustive:    func(tier string) bool { return true },
		Finish: func(tier string, m *Merged, cov map[string]interface{}) {
			cov["exhaustive_note"] = fmt.Sprintf("exhaustive over the cut points of the %d streams of this run that are <= 64 KiB (%d cuts in total); %d larger streams were sampled", m.C("streams:every_cut_enumerated"), m.C("cuts"), m.C("streams:sampled_cuts"))
		},
		Assumptions: []string{"a compatible header on a body of another layout is outside the property", "versions differing from a compatible one only by semver build metadata are accepted either way"},
	})
	register(&CheckDef{
		ID: "C20", Level: "exploration",
		Rule:          "case = (key list, value list, option struct, stream layout current / 0.5.10 / three-section); monitors: (1) snapshots of keys (deep), values, the option struct and the pointees of its pointers compared after NewSlimTrie for an accepted and for a rejected (out-of-order) input, the options handed over both as a single argument and as a caller-owned slice (opts..., a window of a larger preset table whose neighbours must stay intact, with and without spare capacity); byte-slice values handed through by encode.Bytes or a pass-through variable-size encoder are overwritten after the build (general / all-equal / all-empty-but-one / single-key lists) and the battery digest compared; several Marshal results of different tries kept alive and compared with their copies after later Marshal calls; the input buffer overwritten with 0x00 / 0xff / noise after Unmarshal and the Marshal output overwritten likewise, battery digest (lookups, scans, Stat, String, Marshal) and re-Marshal bytes compared before/after; (2) guard pages: the stream lives in an mmap region between PROT_NONE pages, PROT_READ during Unmarshal and PROT_NONE afterwards while the battery runs; key bytes and the string-header array of the key slice live in PROT_READ mappings during build (also for a rejected input); faults are turned into recoverable panics; non-trivial = at least 2 keys; distinct by hash of keys, values and layout",
		NumCases:      c20NumCases,
		Run:           runC20,
		MinNontrivial: func(tier string) int { return 200 },
		Gates: shapeGates("builds_snapshotted", "builds_with_caller_owned_option_slice", "builds_with_a_list_of_several_option_structs", "valkind_in_snapshots:f64", "value_buffer_overwrites_checked", "value_blocks_compared", "numeric_value_slices_overwritten_after_build", "value_blocks_overwritten_after_build:4KiB+", "value_blocks_overwritten_after_build:64KiB+", "over_long_builds_snapshotted", "failed_loads_buffer_compared", "value_buffer_shape:1", "value_buffer_shape:2", "value_buffer_shape:3", "marshal_outputs_kept_alive", "input_overwrites_checked", "output_overwrites_checked", "guarded_streams", "guarded_key_sets", "layout:current", "layout:0.5.10", "layout:3sec",
			"0510_streams_with_prefixes_to_reencode"),
		Assumptions: []string{"retaining references to key strings is not forbidden by the statement; key memory is only write-protected", "debug.SetPanicOnFault turns SIGSEGV on the guarded mappings into recoverable panics (verified in selftest)"},
	})
}
