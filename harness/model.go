package main

import (
	"fmt"
	"sort"
	"sync/atomic"

	"github.com/openacid/slim/trie"
)

// OptSet is one of the 16 combinations of the four booleans.
type OptSet struct {
	D, I, L, C bool
}

func (o OptSet) String() string {
	b := func(x bool) byte {
		if x {
			return '1'
		}
		return '0'
	}
	return fmt.Sprintf("D%cI%cL%cC%c", b(o.D), b(o.I), b(o.L), b(o.C))
}

// Opt builds the option struct with every pointer set explicitly.
func (o OptSet) Opt() trie.Opt {
	pick := func(b bool, on, off *bool) *bool {
		if b {
			return on
		}
		return off
	}
	switch atomic.LoadInt32(&optSpelling) {
	case 1:
		// the way an application composes options from two flag objects:
		// on, off := trie.Bool(true), trie.Bool(false) - every field of one Opt
		// points at one of the two
		t, f := true, false
		return trie.Opt{DedupValue: pick(o.D, &t, &f), InnerPrefix: pick(o.I, &t, &f), LeafPrefix: pick(o.L, &t, &f), Complete: pick(o.C, &t, &f)}
	case 2:
		// ... and keeps the two flag objects for all the tries it builds (here:
		// all builds of one case)
		on, off := caseFlagOn, caseFlagOff
		if on != nil && off != nil {
			return trie.Opt{DedupValue: pick(o.D, on, off), InnerPrefix: pick(o.I, on, off), LeafPrefix: pick(o.L, on, off), Complete: pick(o.C, on, off)}
		}
	}
	return trie.Opt{DedupValue: trie.Bool(o.D), InnerPrefix: trie.Bool(o.I), LeafPrefix: trie.Bool(o.L), Complete: trie.Bool(o.C)}
}

// optSpelling selects how OptSet.Opt spells an option set; the worker loop
// sets it per case (case index mod 3), so that a replay of the case spells the
// options the same way. The behaviour of correct code does not depend on it.
var optSpelling int32
var caseFlagOn, caseFlagOff *bool

func setOptSpelling(caseIdx int) {
	t, f := true, false
	caseFlagOn, caseFlagOff = &t, &f
	atomic.StoreInt32(&optSpelling, int32(caseIdx%3))
}

// Normalised behaviour, as the documentation states it: Complete implies both
// prefix kinds.
func (o OptSet) Inner() bool    { return o.I || o.C }
func (o OptSet) Leaf() bool     { return o.L || o.C }
func (o OptSet) Complete() bool { return o.C || (o.I && o.L) }

// Info is the position in the "stored information" lattice: 0 none, 1 inner,
// 2 leaf, 3 both.
func (o OptSet) Info() int {
	x := 0
	if o.Inner() {
		x |= 1
	}
	if o.Leaf() {
		x |= 2
	}
	return x
}

func allOptSets() []OptSet {
	var out []OptSet
	for i := 0; i < 16; i++ {
		out = append(out, OptSet{D: i&8 != 0, I: i&4 != 0, L: i&2 != 0, C: i&1 != 0})
	}
	return out
}

// triOpt builds an option struct from a base-3 spelling: each pointer nil,
// false or true. Returns the struct and the OptSet it must normalise to.
func triOpt(code int) (trie.Opt, OptSet) {
	var o trie.Opt
	set := OptSet{D: true}
	f := func(c int, dst **bool, def bool) bool {
		switch c {
		case 0:
			return def
		case 1:
			*dst = trie.Bool(false)
			return false
		}
		*dst = trie.Bool(true)
		return true
	}
	set.D = f(code%3, &o.DedupValue, true)
	set.I = f(code/3%3, &o.InnerPrefix, false)
	set.L = f(code/9%3, &o.LeafPrefix, false)
	set.C = f(code/27%3, &o.Complete, false)
	return o, set
}

// Model is the executable specification: the caller's ascending entries and
// the retained subset.
type Model struct {
	Keys    []string
	Vals    *ValSpec
	Dedup   bool
	Ret     []int // indices into Keys of retained entries
	RetKeys []string
	// OwnerOf[i] = index into Ret of the retained entry whose range covers key i
	OwnerOf  []int
	supplied map[string]struct{}
}

func NewModel(keys []string, vals *ValSpec, dedup bool) *Model {
	m := &Model{Keys: keys, Vals: vals, Dedup: dedup}
	m.OwnerOf = make([]int, len(keys))
	for i := range keys {
		drop := i > 0 && dedup && !vals.IsNone() && vals.EqualAdj(i)
		if !drop {
			m.Ret = append(m.Ret, i)
			m.RetKeys = append(m.RetKeys, keys[i])
		}
		m.OwnerOf[i] = len(m.Ret) - 1
	}
	return m
}

// Find returns the number of retained keys < q and whether q is retained.
func (m *Model) Find(q string) (int, bool) {
	p := sort.SearchStrings(m.RetKeys, q)
	return p, p < len(m.RetKeys) && m.RetKeys[p] == q
}

// ValAt returns the supplied value of retained entry r (nil without values).
func (m *Model) ValAt(r int) interface{} {
	if m.Vals.IsNone() {
		return nil
	}
	return m.Vals.At(m.Ret[r])
}

// Exact answers for tries that store complete keys.

func (m *Model) Get(q string) (interface{}, bool) {
	p, eq := m.Find(q)
	if !eq {
		return nil, false
	}
	return m.ValAt(p), true
}

func (m *Model) RangeGet(q string) (interface{}, bool) {
	p, eq := m.Find(q)
	if eq {
		return m.ValAt(p), true
	}
	if p == 0 {
		return nil, false
	}
	return m.ValAt(p - 1), true
}

// Search returns retained positions (or -1) for left, equal, right.
func (m *Model) SearchPos(q string) (int, int, int) {
	p, eq := m.Find(q)
	l, e, r := p-1, -1, p
	if eq {
		e = p
		r = p + 1
	}
	if r >= len(m.RetKeys) {
		r = -1
	}
	return l, e, r
}

// canon renders a value with its dynamic type, for set membership.
func canon(v interface{}) string {
	if b, ok := v.([]byte); ok {
		return "[]byte:" + string(b)
	}
	return fmt.Sprintf("%T:%v", v, v)
}

// IsSupplied reports whether v equals some retained value.
func (m *Model) IsSupplied(v interface{}) bool {
	if m.Vals.IsNone() {
		return v == nil
	}
	if m.supplied == nil {
		m.supplied = map[string]struct{}{}
		for _, i := range m.Ret {
			m.supplied[canon(m.Vals.At(i))] = struct{}{}
		}
	}
	if v == nil {
		// a zero-length []byte value may come back as nil
		_, ok := m.supplied["[]byte:"]
		return ok
	}
	_, ok := m.supplied[canon(v)]
	return ok
}
