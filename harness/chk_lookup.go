package main

import (
	"encoding/hex"
	"fmt"
	"reflect"
	"sort"
	"strconv"
	"strings"

	"github.com/golang/protobuf/proto"
	"github.com/openacid/errors"

	"github.com/openacid/slim/encode"
	"github.com/openacid/slim/index"
	"github.com/openacid/slim/trie"
)

// LCase is one lookup-family case: a key set and a value list; every case is
// replicated over the 16 option sets and over fresh / loaded instances.
type LCase struct {
	Family  string
	Keys    []string
	Vals    *ValSpec
	Queries []string // nil: derive with genQueries
	QMax    int
	Exh     bool
	R       *RNG
	// Golden: a stream of exactly this case persisted by the pinned release;
	// the case is then run under the golden option set only, with the pinned
	// stream as an additional instance
	Golden *GoldenCase
}

func hexKeys(keys []string, max int) []string {
	out := []string{}
	for i, k := range keys {
		if i >= max {
			out = append(out, fmt.Sprintf("... (%d keys)", len(keys)))
			break
		}
		h := hex.EncodeToString([]byte(k))
		if len(h) > 160 {
			h = h[:80] + fmt.Sprintf("..(%d bytes)..", len(k)) + h[len(h)-40:]
		}
		out = append(out, h)
	}
	return out
}

func hexq(q string) string {
	h := hex.EncodeToString([]byte(q))
	if len(h) > 300 {
		h = h[:150] + fmt.Sprintf("..(%d bytes)..", len(q)) + h[len(h)-60:]
	}
	return h
}

func (lc *LCase) describe() map[string]interface{} {
	d := map[string]interface{}{
		"family": lc.Family, "n_keys": len(lc.Keys), "keys_hex": hexKeys(lc.Keys, 40),
		"value_kind": lc.Vals.Kind, "values": lc.Vals.Describe(40),
	}
	if lc.Vals.Kind == "rawstr" && lc.Vals.NilEmpty {
		d["value_kind"] = "rawstr (the encoder returns nil for the empty string)"
	}
	return d
}

func (lc *LCase) hash() uint64 {
	h := hashStr(lc.Keys...)
	h = mix(h, hashStr(lc.Vals.Kind))
	for i := 0; i < lc.Vals.Len(); i++ {
		h = mix(h, hashStr(string(lc.Vals.RefEnc(i))))
	}
	return h
}

// lookup profile per property
type lprofile struct {
	prop       string
	kinds      []string // allowed value kinds (nil = all)
	runBias    bool     // favour run-length duplicated values
	noNone     bool
	onlyCompl  bool // drive only option sets that store complete keys
	qmax       int
	quickCases int
	thorCases  int
	raceCases  int
	overLimit  bool
}

var lprofiles = map[string]*lprofile{
	"C01": {prop: "C01", qmax: 0, quickCases: 1500, thorCases: 10000, raceCases: 400},
	"C02": {prop: "C02", runBias: true, noNone: false, qmax: 0, quickCases: 1500, thorCases: 10000},
	"C03": {prop: "C03", onlyCompl: true, qmax: 3000, quickCases: 1200, thorCases: 8000, raceCases: 300},
	"C09": {prop: "C09", noNone: true, qmax: 0, quickCases: 1500, thorCases: 10000},
	"C10": {prop: "C10", qmax: 3000, quickCases: 1000, thorCases: 7000, raceCases: 400, overLimit: true},
	"C13": {prop: "C13", qmax: 2000, quickCases: 1000, thorCases: 7000, overLimit: true},
	"C14": {prop: "C14", kinds: []string{"i8", "i16", "i32", "i64"}, qmax: 1500, quickCases: 1600, thorCases: 10000, raceCases: 200},
	"C18": {prop: "C18", qmax: 0, quickCases: 1500, thorCases: 20000},
}

// exhTier selects the exhaustive universes: the scan check uses a lighter set
// in the thorough tier.
func (p *lprofile) exhTier(tier string) string {
	if p.prop == "C04" && tier == "thorough" {
		return "thorough-light"
	}
	return tier
}

func (p *lprofile) usesExhaustive() bool {
	switch p.prop {
	case "C14", "C18":
		return false
	}
	return true
}

// big cases: shapes that need size to exist (> 65535 nodes, 257-bit nodes two
// levels deep, short tables of size 8-10, leaf arrays beyond 1 MiB). A few in
// the quick tier, more in thorough; skipped in the race pass.
func numBig(tier string) int {
	if tier == "thorough" {
		return 24
	}
	return 7
}

func genBig(r *RNG, j int) KeySet {
	switch j % 7 {
	case 4: // short-node table of exactly 9 bits
		return KeySet{"big:steer-short-9", genSteerShort(9, 30+r.Intn(8))}
	case 5: // ... and of 10 bits
		return KeySet{"big:steer-short-10", genSteerShort(10, 50+r.Intn(8))}
	case 6: // more than 2^18 keys (only two option sets are built for these)
		seen := make(map[string]bool, 300000)
		k := make([]string, 0, 290000)
		for len(k) < 280000 {
			x := string(r.Bytes(r.Range(5, 7)))
			if !seen[x] {
				seen[x] = true
				k = append(k, x)
			}
		}
		sort.Strings(k)
		return KeySet{"big:uniform-280k", k}
	}
	switch j % 7 {
	case 0: // > 65535 nodes, 257-bit nodes two levels deep
		var k []string
		n := r.Range(66000, 80000)
		for i := 0; i < n; i++ {
			k = append(k, string(r.Bytes(r.Range(4, 9))))
		}
		return KeySet{"big:uniform-70k", sortUniq(k)}
	case 1: // thousands of 257-bit nodes
		return KeySet{"big:dense-alpha-d4", genDenseAlpha(r, r.Range(11, 16), 4, r.Intn(50))}
	case 2: // short-node tables of 8..10 bits
		switch (j / 7) % 3 {
		case 0:
			return KeySet{"big:repeats-120x48000", genRepeats(r, 48000, 120, 3)}
		case 1:
			return KeySet{"big:repeats-84x25000", genRepeats(r, 25000, 84, 3)}
		}
		return KeySet{"big:repeats-60x2400", genRepeats(r, 2400, 60, 3)}
	}
	return KeySet{"big:nibble-dense-30k", genNibbleDense(r, 30000)}
}

func (p *lprofile) numCases(tier string) int {
	n := len(directedKeySets())*2 + numBig(tier) + len(loadGolden())
	n += 2 * len(p.extraDirected())
	if p.usesExhaustive() {
		n += exhNumChunks(p.exhTier(tier))
	}
	if tier == "thorough" {
		return n + p.thorCases
	}
	return n + p.quickCases
}

// extraDirected: key lists beyond the documented key length, for the
// properties whose statement is not limited to it.
func (p *lprofile) extraDirected() []KeySet {
	if p.overLimit {
		// C13 relates the option sets for ANY accepted list: include shared runs
		// beyond the documented key length (32768..65535 half-bytes), where the
		// step-only modes and the prefix-storing modes use different code
		return []KeySet{
			{"directed:run-34000-halfbytes", sortUniq([]string{"a" + rep("x", 17000) + "1", "a" + rep("x", 17000) + "2", "b"})},
			{"directed:run-60000-halfbytes", sortUniq([]string{rep("\xfe", 30000) + "\x10", rep("\xfe", 30000) + "\x20z", rep("\xfe", 30000) + "\x30"})},
			// ... and runs that no step can count (65536 half-bytes and more): the
			// modes without inner prefixes refuse them (ErrKeyTooLong, tolerated for
			// these lists); whatever is accepted takes part in the relation. The
			// run leads into a byte-wide node (16 branches) and into a 4-bit node.
			{"directed:overlong-run-80000-halfbytes-16-branches", overlongFan(40000, 16)},
			{"directed:overlong-run-65536-halfbytes-3-branches", overlongFan(32768, 3)}}
	}
	if p.prop == "C03" {
		// C03 is about every Complete trie: stored prefixes have no length limit,
		// so shared runs of 65536 and more half-bytes (which the step-only modes
		// refuse) are accepted and must be an exact map as well - at the root and
		// below an inner node, 16-bit boundary from both sides
		return []KeySet{
			{"directed:complete-run-65535-halfbytes", sortUniq([]string{"a" + rep("x", 32767) + "\x71", "a" + rep("x", 32767) + "\x72", "a" + rep("x", 32767) + "\x72z", "b"})},
			{"directed:complete-run-65536-halfbytes", sortUniq([]string{rep("\xfe", 32768) + "\x10", rep("\xfe", 32768) + "\x20z", rep("\xfe", 32768) + "\x30", rep("\xfe", 32768) + "\x30\x00"})},
			{"directed:complete-run-80001-halfbytes", sortUniq([]string{"a", "a" + rep("xy", 20000) + "\x71", "a" + rep("xy", 20000) + "\x7f", "a" + rep("xy", 20000) + "\x7fq", "b", "c" + rep("z", 33000), "c" + rep("z", 33000) + "z"})},
		}
	}
	return nil
}

func overlongFan(runBytes, branches int) []string {
	var k []string
	p := rep("a", runBytes)
	for i := 0; i < branches; i++ {
		k = append(k, p+string([]byte{byte(0x10 + i*13)}))
	}
	k = append(k, p+string([]byte{0x10})+"tail")
	if branches <= 10 {
		k = append(k, "b") // (a byte-wide node after the run needs a byte-wide root: no other key then)
	}
	return sortUniq(k)
}

// caseAt materialises case idx. Returns nil,chunk for exhaustive chunks.
func (p *lprofile) caseAt(ctx *Ctx, idx int) (*LCase, *ExhSpace, [][]int) {
	r := NewRNG(caseSeed(ctx.Seed, "lookup-"+p.prop, ctx.Tier, idx))
	dir := append(directedKeySets(), p.extraDirected()...)
	if idx < len(dir)*2 {
		ks := dir[idx/2]
		kind := p.pickKind(r)
		style := 0
		if idx%2 == 1 {
			style = 1 + r.Intn(4)
			if kind == "none" && !p.noNone {
				kind = "i32"
			}
		}
		qmax := p.qmax
		if len(ks.Keys) > 0 && len(ks.Keys[len(ks.Keys)/2]) > 32000 && qmax > 500 {
			qmax = 500 // tens of kilobytes per query string
		}
		return &LCase{Family: ks.Family, Keys: ks.Keys, Vals: genVals(r, kind, len(ks.Keys), style), QMax: qmax, R: r}, nil, nil
	}
	idx -= len(dir) * 2
	if idx < numBig(ctx.Tier) {
		if ctx.BuildMode == "race" || ctx.BuildMode == "asan" {
			return &LCase{Family: "big:skipped-in-race-pass", Keys: nil, Vals: genVals(r, "none", 0, 0), QMax: p.qmax, R: r}, nil, nil
		}
		ks := genBig(r, idx)
		kind := p.pickKind(r)
		if idx%4 == 3 && p.kinds == nil {
			kind = "str16"
		}
		return &LCase{Family: ks.Family, Keys: ks.Keys, Vals: genVals(r, kind, len(ks.Keys), []int{0, 1, 4}[r.Intn(3)]), QMax: p.qmax, R: r}, nil, nil
	}
	idx -= numBig(ctx.Tier)
	if gs := loadGolden(); idx < len(gs) {
		g := &gs[idx]
		ok := true
		if p.kinds != nil {
			ok = false
			for _, k := range p.kinds {
				if k == g.Vals.Kind {
					ok = true
				}
			}
		}
		if p.noNone && g.Vals.Kind == "none" {
			ok = false
		}
		if p.onlyCompl && !g.Opt.Complete() {
			ok = false
		}
		if !ok {
			return &LCase{Family: "golden:not-applicable-to-this-property", Keys: nil, Vals: genVals(r, "none", 0, 0), QMax: p.qmax, R: r}, nil, nil
		}
		return &LCase{Family: "golden", Keys: g.Keys, Vals: g.Vals, QMax: p.qmax, R: r, Golden: g}, nil, nil
	} else {
		idx -= len(gs)
	}
	if p.usesExhaustive() {
		nc := exhNumChunks(p.exhTier(ctx.Tier))
		if idx < nc {
			sp, subs := exhChunkAt(p.exhTier(ctx.Tier), idx)
			return nil, sp, subs
		}
		idx -= nc
	}
	scale := 0
	if ctx.Tier == "thorough" {
		scale = 1
	}
	if ctx.BuildMode == "race" || ctx.BuildMode == "asan" {
		scale = 2
	}
	ks := genKeySet(r, scale)
	kind := p.pickKind(r)
	style := r.Intn(5)
	if p.runBias && r.Chance(2, 3) {
		style = []int{1, 1, 2, 4, 3}[r.Intn(5)]
	}
	if p.prop == "C09" && style == 3 {
		style = 1
	}
	return &LCase{Family: ks.Family, Keys: ks.Keys, Vals: genVals(r, kind, len(ks.Keys), style), QMax: p.qmax, R: r}, nil, nil
}

func (p *lprofile) pickKind(r *RNG) string {
	if p.kinds != nil {
		return p.kinds[r.Intn(len(p.kinds))]
	}
	for {
		k := pickKind(r)
		if p.noNone && k == "none" {
			continue
		}
		return k
	}
}

// ---- the per-instance oracles ---------------------------------------------

type lookupEnv struct {
	ctx   *Ctx
	prop  string
	lc    *LCase
	opt   OptSet
	model *Model
	inst  string
	st    *trie.SlimTrie
	// survivor re-check: the property's own oracle is run again, on every
	// stride-th key, against an instance that passed it earlier
	survivor bool
	stride   int
}

func (e *lookupEnv) step() int {
	if e.stride > 1 {
		return e.stride
	}
	return 1
}

func (e *lookupEnv) viol(clause string, q string, extra map[string]interface{}) {
	d := e.lc.describe()
	if e.survivor {
		d["clause"] = clause
		d["what"] = "an instance that satisfied this oracle before no longer does after other tries were built/loaded"
		clause = "earlier-instance-changed"
	}
	d["opt"] = e.opt.String()
	d["instance"] = e.inst
	d["query_hex"] = hexq(q)
	for k, v := range extra {
		d[k] = v
	}
	e.ctx.Violate(fmt.Sprintf("%s/%s/%s", e.prop, clause, e.opt.String()), d)
}

func show(v interface{}) string {
	if v == nil {
		return "<nil>"
	}
	if b, ok := v.([]byte); ok {
		return "bytes:" + hex.EncodeToString(b)
	}
	if s, ok := v.(string); ok {
		return "str:" + hex.EncodeToString([]byte(s))
	}
	return fmt.Sprintf("%T:%v", v, v)
}

// oracleC01: every retained key is found with its own value; ids are
// non-negative and distinct.
func (e *lookupEnv) oracleC01() {
	m := e.model
	st := e.st
	cur := ""
	ids := make(map[int32]int, len(m.RetKeys))
	pv, stack := try(func() {
		for r := 0; r < len(m.RetKeys); r += e.step() {
			k := m.RetKeys[r]
			cur = k
			v, found := st.Get(k)
			id := st.GetID(k)
			if !found {
				e.viol("get-miss", k, map[string]interface{}{"expected": show(m.ValAt(r)), "observed": "not found"})
				return
			}
			if !sameVal(v, m.ValAt(r)) {
				e.viol("get-wrong-value", k, map[string]interface{}{"expected": show(m.ValAt(r)), "observed": show(v)})
				return
			}
			if id < 0 {
				e.viol("getid-negative", k, map[string]interface{}{"observed": id})
				return
			}
			if o, dup := ids[id]; dup {
				e.viol("getid-collision", k, map[string]interface{}{"id": id, "other_key_hex": hexq(m.RetKeys[o])})
				return
			}
			ids[id] = r
		}
	})
	if pv != nil {
		e.viol("panic", cur, map[string]interface{}{"panic": fmt.Sprint(pv), "stack": stack})
	}
	e.ctx.Count("calls:Get(retained)", int64(len(m.RetKeys)))
}

// oracleC02: RangeGet on every input key, retained or dropped.
func (e *lookupEnv) oracleC02() {
	m := e.model
	st := e.st
	cur := ""
	dropped := 0
	pv, stack := try(func() {
		for i := 0; i < len(m.Keys); i += e.step() {
			k := m.Keys[i]
			cur = k
			v, found := st.RangeGet(k)
			var want interface{}
			if !m.Vals.IsNone() {
				want = m.Vals.At(i)
			}
			isDropped := m.Ret[m.OwnerOf[i]] != i
			if isDropped {
				dropped++
			}
			if !found {
				e.viol("rangeget-miss", k, map[string]interface{}{"expected": show(want), "observed": "not found", "key_dropped_by_dedup": isDropped})
				return
			}
			if !sameVal(v, want) {
				e.viol("rangeget-wrong-value", k, map[string]interface{}{"expected": show(want), "observed": show(v), "key_dropped_by_dedup": isDropped})
				return
			}
		}
	})
	if pv != nil {
		e.viol("panic", cur, map[string]interface{}{"panic": fmt.Sprint(pv), "stack": stack})
	}
	e.ctx.Count("calls:RangeGet(input key)", int64(len(m.Keys)))
	e.ctx.Count("calls:RangeGet(dropped key)", int64(dropped))
}

// oracleC03: exact ordered map, four APIs, arbitrary queries. Only for option
// sets that store complete keys.
func (e *lookupEnv) oracleC03(qs []string) {
	m := e.model
	st := e.st
	cur := ""
	none := m.Vals.IsNone()
	var nHit, nMiss int64
	pv, stack := try(func() {
		for qi, q := range qs {
			if qi&255 == 0 {
				e.ctx.Beat()
			}
			cur = q
			l, eq, r := m.SearchPos(q)
			v, found := st.Get(q)
			id := st.GetID(q)
			if found != (eq >= 0) || (id >= 0) != (eq >= 0) {
				e.viol("get-found", q, map[string]interface{}{"expected_found": eq >= 0, "Get_found": found, "GetID": id})
				return
			}
			if eq >= 0 {
				nHit++
				if !sameVal(v, m.ValAt(eq)) {
					e.viol("get-value", q, map[string]interface{}{"expected": show(m.ValAt(eq)), "observed": show(v)})
					return
				}
			} else {
				nMiss++
				if v != nil {
					e.viol("get-value-on-miss", q, map[string]interface{}{"observed": show(v)})
					return
				}
			}
			rv, rfound := st.RangeGet(q)
			wantR := eq
			if wantR < 0 {
				wantR = l
			}
			if rfound != (wantR >= 0) {
				e.viol("rangeget-found", q, map[string]interface{}{"expected_found": wantR >= 0, "observed_found": rfound, "observed": show(rv)})
				return
			}
			if wantR >= 0 && !sameVal(rv, m.ValAt(wantR)) {
				e.viol("rangeget-value", q, map[string]interface{}{"expected": show(m.ValAt(wantR)), "observed": show(rv), "expected_key_hex": hexq(m.RetKeys[wantR])})
				return
			}
			if wantR < 0 && rv != nil {
				e.viol("rangeget-value-on-miss", q, map[string]interface{}{"observed": show(rv)})
				return
			}
			lv, ev, rrv := st.Search(q)
			if none {
				if lv != nil || ev != nil || rrv != nil {
					e.viol("search-nonnil-without-values", q, map[string]interface{}{"observed": []string{show(lv), show(ev), show(rrv)}})
					return
				}
				continue
			}
			want := [3]interface{}{}
			for j, p := range []int{l, eq, r} {
				if p >= 0 {
					want[j] = m.ValAt(p)
				}
			}
			got := [3]interface{}{lv, ev, rrv}
			for j := range want {
				if !sameVal(got[j], want[j]) || (want[j] == nil) != (got[j] == nil) {
					e.viol("search-"+[]string{"left", "eq", "right"}[j], q, map[string]interface{}{
						"expected": []string{show(want[0]), show(want[1]), show(want[2])},
						"observed": []string{show(got[0]), show(got[1]), show(got[2])}})
					return
				}
			}
		}
	})
	if pv != nil {
		e.viol("panic", cur, map[string]interface{}{"panic": fmt.Sprint(pv), "stack": stack})
	}
	e.ctx.Count("queries:present", nHit)
	e.ctx.Count("queries:absent", nMiss)
}

// oracleC09: Search on a retained key returns its exact neighbours in every
// mode.
func (e *lookupEnv) oracleC09() {
	m := e.model
	st := e.st
	if m.Vals.IsNone() {
		e.ctx.Count("skipped:no-values", 1)
		return
	}
	cur := ""
	pv, stack := try(func() {
		for r := 0; r < len(m.RetKeys); r += e.step() {
			k := m.RetKeys[r]
			cur = k
			lv, ev, rv := st.Search(k)
			var wl, wr interface{}
			if r > 0 {
				wl = m.ValAt(r - 1)
			}
			if r+1 < len(m.RetKeys) {
				wr = m.ValAt(r + 1)
			}
			we := m.ValAt(r)
			if !sameVal(lv, wl) || !sameVal(ev, we) || !sameVal(rv, wr) || (wl == nil) != (lv == nil) || (wr == nil) != (rv == nil) {
				e.viol("search-neighbours", k, map[string]interface{}{
					"expected": []string{show(wl), show(we), show(wr)},
					"observed": []string{show(lv), show(ev), show(rv)}, "retained_pos": r})
				return
			}
		}
	})
	if pv != nil {
		e.viol("panic", cur, map[string]interface{}{"panic": fmt.Sprint(pv), "stack": stack})
	}
	e.ctx.Count("calls:Search(retained)", int64(len(m.RetKeys)))
}

// qres is the per-query observation kept for cross-mode comparison (C13).
type qres struct {
	found bool
	val   interface{}
}

// oracleC10: totality, provenance and cross-API agreement on every query.
// Returns Get results for C13.
func (e *lookupEnv) oracleC10(qs []string, keep bool, strict bool) []qres {
	m := e.model
	st := e.st
	none := m.Vals.IsNone()
	var out []qres
	if keep {
		out = make([]qres, len(qs))
	}
	var nFound, nFP int64
	for qi, q := range qs {
		if qi&63 == 0 {
			e.ctx.Beat()
		}
		var v, rv, lv, ev, rrv interface{}
		var found, rfound bool
		var id int32
		api := "Get"
		pv, stack := try(func() {
			v, found = st.Get(q)
			api = "GetID"
			id = st.GetID(q)
			api = "RangeGet"
			rv, rfound = st.RangeGet(q)
			api = "Search"
			lv, ev, rrv = st.Search(q)
		})
		if pv != nil {
			// in the relational checks too: no answer, no relation
			e.viol("panic-"+api, q, map[string]interface{}{"panic": fmt.Sprint(pv), "stack": stack})
			if strict {
				return out
			}
			return nil
		}
		if keep {
			out[qi] = qres{found, v}
		}
		if !strict {
			continue
		}
		// values handed out by a copying encoder belong to the caller: what it
		// does to them must not come back through a later answer
		var scribbled [][]byte
		if e.lc.Vals.Kind == "cpbytes" {
			for _, x := range []interface{}{v, rv, lv, ev, rrv} {
				if b, ok := x.([]byte); ok && len(b) > 0 {
					scribbled = append(scribbled, b)
				}
			}
		}
		if found {
			nFound++
			if _, eq := m.Find(q); !eq {
				nFP++
			}
		}
		if found != (id >= 0) {
			e.viol("get-getid-disagree", q, map[string]interface{}{"Get_found": found, "GetID": id})
			return out
		}
		if !none {
			if found != (ev != nil) {
				e.viol("get-search-disagree", q, map[string]interface{}{"Get_found": found, "Search_eq": show(ev)})
				return out
			}
			if found && !sameVal(v, ev) {
				e.viol("get-search-value", q, map[string]interface{}{"Get": show(v), "Search_eq": show(ev)})
				return out
			}
		} else if v != nil || rv != nil || lv != nil || ev != nil || rrv != nil {
			e.viol("value-without-values", q, map[string]interface{}{"observed": []string{show(v), show(rv), show(lv), show(ev), show(rrv)}})
			return out
		}
		if !found && v != nil {
			e.viol("value-on-miss", q, map[string]interface{}{"Get": show(v)})
			return out
		}
		if found && (!rfound || !sameVal(v, rv)) {
			e.viol("get-rangeget-disagree", q, map[string]interface{}{"Get": show(v), "RangeGet_found": rfound, "RangeGet": show(rv)})
			return out
		}
		if !none {
			for j, x := range []interface{}{v, rv, lv, ev, rrv} {
				present := x != nil
				if j == 0 {
					present = found
				} else if j == 1 {
					present = rfound
				}
				if present && !m.IsSupplied(x) {
					e.viol("unsupplied-value", q, map[string]interface{}{"api": []string{"Get", "RangeGet", "Search.l", "Search.eq", "Search.r"}[j], "observed": show(x)})
					return out
				}
			}
		}
		for _, b := range scribbled {
			for i := range b {
				b[i] ^= 0xa5
			}
			e.ctx.Count("returned_values_scribbled", 1)
		}
		// the same query once more, stored so that nothing readable follows it:
		// a lookup must not read past the end of its query string, and what it
		// answers must not depend on what lies behind it
		if qi%4 == 1 && len(scribbled) == 0 {
			if gq, ok := guardedQuery(q); ok {
				var v2, rv2, lv2, ev2, rrv2 interface{}
				var found2, rfound2 bool
				var id2 int32
				api := "Get"
				pv, stack := try(func() {
					v2, found2 = st.Get(gq)
					api = "GetID"
					id2 = st.GetID(gq)
					api = "RangeGet"
					rv2, rfound2 = st.RangeGet(gq)
					api = "Search"
					lv2, ev2, rrv2 = st.Search(gq)
				})
				if pv != nil {
					e.viol("panic-"+api, q, map[string]interface{}{"panic": fmt.Sprint(pv), "stack": stack,
						"what": "the query string ends at the last byte of a readable page (guard page behind it): the call read past the end of its argument"})
					return out
				}
				if found2 != found || id2 != id || rfound2 != rfound || !sameVal(v2, v) || !sameVal(rv2, rv) || !sameVal(lv2, lv) || !sameVal(ev2, ev) || !sameVal(rrv2, rrv) {
					e.viol("answer-depends-on-memory-behind-the-query", q, map[string]interface{}{
						"ordinary_string": []string{show(v), fmt.Sprint(found), fmt.Sprint(id), show(rv), show(lv), show(ev), show(rrv)},
						"guarded_string":  []string{show(v2), fmt.Sprint(found2), fmt.Sprint(id2), show(rv2), show(lv2), show(ev2), show(rrv2)}})
					return out
				}
				e.ctx.Count("queries_repeated_against_a_guard_page", 1)
			}
		}
	}
	e.ctx.Count("queries", int64(len(qs)))
	e.ctx.Count("queries:found", nFound)
	e.ctx.Count("queries:false_positive", nFP)
	return out
}

// oracleC14: typed getters agree with Get.
func (e *lookupEnv) oracleC14(qs []string) {
	st := e.st
	kind := e.lc.Vals.Kind
	cur := ""
	var nf int64
	pv, stack := try(func() {
		for _, q := range qs {
			cur = q
			v, found := st.Get(q)
			var tv int64
			var tfound bool
			var gv int64
			switch kind {
			case "i8":
				x, f := st.GetI8(q)
				tv, tfound = int64(x), f
				if found {
					gv = reflect.ValueOf(v).Int()
				}
			case "i16":
				x, f := st.GetI16(q)
				tv, tfound = int64(x), f
				if found {
					gv = reflect.ValueOf(v).Int()
				}
			case "i32":
				x, f := st.GetI32(q)
				tv, tfound = int64(x), f
				if found {
					gv = reflect.ValueOf(v).Int()
				}
			case "i64":
				x, f := st.GetI64(q)
				tv, tfound = x, f
				if found {
					gv = reflect.ValueOf(v).Int()
				}
			}
			if found {
				nf++
			}
			if tfound != found || tv != gv {
				e.viol("typed-getter-"+kind, q, map[string]interface{}{"Get": show(v), "Get_found": found, "typed": tv, "typed_found": tfound})
				return
			}
		}
	})
	if pv != nil {
		e.viol("panic-"+kind, cur, map[string]interface{}{"panic": fmt.Sprint(pv), "stack": stack})
	}
	e.ctx.Count("queries", int64(len(qs)))
	e.ctx.Count("queries:found", nf)
}

// oracleC18: Stat consistency against the model.
func (e *lookupEnv) oracleC18() *trie.Stat {
	var s *trie.Stat
	pv, stack := try(func() { s = e.st.Stat() })
	if pv != nil {
		e.viol("panic", "", map[string]interface{}{"panic": fmt.Sprint(pv), "stack": stack})
		return nil
	}
	m := e.model
	bad := func(why string) {
		e.viol("stat-"+why, "", map[string]interface{}{"stat": fmt.Sprintf("%+v", *s), "retained": len(m.RetKeys)})
	}
	if int(s.KeyCnt) != len(m.RetKeys) {
		bad("keycnt")
		return s
	}
	if int(s.LevelCnt) != len(s.Levels) || len(s.Levels) == 0 {
		bad("levelcnt")
		return s
	}
	last := s.Levels[len(s.Levels)-1]
	if s.NodeCnt != last.Total || last.Total != last.Inner+last.Leaf {
		bad("nodecnt")
		return s
	}
	if len(m.RetKeys) > 0 && last.Leaf != s.KeyCnt {
		bad("leaf-total")
		return s
	}
	for i, l := range s.Levels {
		if l.Total != l.Inner+l.Leaf {
			bad("level-sum")
			return s
		}
		if i > 0 {
			p := s.Levels[i-1]
			if l.Total < p.Total || l.Inner < p.Inner || l.Leaf < p.Leaf {
				bad("level-decrease")
				return s
			}
		}
	}
	switch len(m.RetKeys) {
	case 0:
		if s.KeyCnt != 0 || s.NodeCnt != 0 {
			bad("empty")
		}
	case 1:
		// (1 key, 1 node) is promised for a trie built from a single key; a
		// longer list de-duplicated down to one retained key legitimately
		// keeps a single-label inner node above the leaf.
		if len(m.Keys) == 1 && (s.KeyCnt != 1 || s.NodeCnt != 1) {
			bad("single")
		}
	default:
		// n leaves need at least one inner node and at most n-1 branching
		// inner nodes plus single-label ones; inner+leaf already checked.
		if s.NodeCnt <= s.KeyCnt {
			bad("no-inner")
		}
	}
	// The level table is documented (slimtrie_level.go) as node counts up to and
	// including each level, node ids running level by level. GetID names the
	// leaf of every retained key, so the leaves whose ids lie in a level's id
	// range must be as many as the table says that level has - per level, not
	// only in total.
	if nk := len(m.RetKeys); nk > 0 && nk <= 30000 && !e.survivor {
		perLevel := make([]int32, len(s.Levels))
		ok := true
		pv, _ := try(func() {
			for _, k := range m.RetKeys {
				id := e.st.GetID(k)
				if id < 0 {
					ok = false // C01's finding, not ours
					return
				}
				lv := sort.Search(len(s.Levels), func(i int) bool { return s.Levels[i].Total > id })
				if lv >= len(s.Levels) {
					bad("leaf-id-beyond-last-level")
					ok = false
					return
				}
				perLevel[lv]++
			}
		})
		if pv == nil && ok {
			for i := 1; i < len(s.Levels); i++ {
				if want := s.Levels[i].Leaf - s.Levels[i-1].Leaf; perLevel[i] != want {
					e.viol("stat-level-leaves", "", map[string]interface{}{"stat": fmt.Sprintf("%+v", *s), "level": i, "leaves_by_table": want, "leaves_whose_id_lies_in_that_level": perLevel[i]})
					break
				}
			}
			e.ctx.Count("level_tables_checked_leaf_by_leaf", 1)
			e.ctx.Max("levels_max", int64(len(s.Levels)))
		}
	}
	// ... and against the tree String() draws (an independent walk of the same
	// structure, checked by C19): the depth of every node follows from the
	// indentation, and with it the true number of inner and leaf nodes on every
	// level and the number of levels. A rendering that cannot be read with
	// certainty (format changed, ids not level-ordered, child counts that do not
	// add up) is skipped, not judged.
	if nk := len(m.RetKeys); nk > 0 && nk <= 1200 && len(s.Levels) <= 80 && !e.survivor && !e.lc.Exh && (e.ctx.curCase+int(s.NodeCnt))%3 == 0 {
		var txt string
		if pv, _ := try(func() { txt = e.st.String() }); pv == nil {
			// (a rendering with another number of nodes than Stat reports is C19's
			// business or already reported above; it is no witness about levels)
			if rows, ok := levelsFromRendering(txt); ok && rows[len(rows)-1][0] == s.NodeCnt {
				bad := ""
				if len(rows) != len(s.Levels) {
					bad = "number of levels"
				} else {
					for i := range rows {
						if rows[i] != [3]int32{s.Levels[i].Total, s.Levels[i].Inner, s.Levels[i].Leaf} {
							bad = fmt.Sprintf("row %d", i)
							break
						}
					}
				}
				if bad != "" {
					e.viol("stat-levels-differ-from-rendered-tree", "", map[string]interface{}{"what": bad, "stat": fmt.Sprintf("%+v", *s), "levels_of_the_rendered_tree(total,inner,leaf)": fmt.Sprint(rows)})
				}
				e.ctx.Count("level_tables_compared_with_rendered_tree", 1)
			} else {
				e.ctx.Count("renderings_not_readable_for_levels", 1)
			}
		}
	}
	e.ctx.Count("calls:Stat", 1)
	return s
}

// levelsFromRendering derives the cumulative (total, inner, leaf) rows, level 0
// included, from String()'s tree. ok is false whenever the text cannot be read
// with certainty.
func levelsFromRendering(txt string) (rows [][3]int32, ok bool) {
	lines := strings.Split(strings.TrimRight(txt, "\n"), "\n")
	if len(lines) == 0 || lines[0] == "" {
		return nil, false
	}
	type node struct {
		id, depth, children, declared int
		leaf                          bool
	}
	nodes := make([]node, 0, len(lines))
	var stack []int // '#' columns of the ancestors
	var stackIdx []int
	for li, ln := range lines {
		mm := lineRe.FindStringSubmatch(ln)
		if mm == nil {
			return nil, false
		}
		lead := len(ln) - len(strings.TrimLeft(ln, " "))
		hashCol := strings.IndexByte(ln, '#')
		if li == 0 {
			if lead != 0 || mm[1] != "" {
				return nil, false
			}
		} else {
			for len(stack) > 0 && stack[len(stack)-1]+4 > lead {
				stack = stack[:len(stack)-1]
				stackIdx = stackIdx[:len(stackIdx)-1]
			}
			if len(stack) == 0 || stack[len(stack)-1]+4 != lead || mm[1] == "" {
				return nil, false
			}
			nodes[stackIdx[len(stackIdx)-1]].children++
		}
		var id, declared int
		fmt.Sscanf(mm[2], "%d", &id)
		if mm[4] != "" {
			fmt.Sscanf(mm[4], "*%d", &declared)
		}
		nodes = append(nodes, node{id: id, depth: len(stack) + 1, declared: declared, leaf: mm[5] != ""})
		stack = append(stack, hashCol)
		stackIdx = append(stackIdx, len(nodes)-1)
	}
	maxDepth := 0
	byID := make([]*node, len(nodes))
	for i := range nodes {
		nd := &nodes[i]
		if nd.id < 0 || nd.id >= len(nodes) || byID[nd.id] != nil {
			return nil, false
		}
		byID[nd.id] = nd
		// "*N" is printed for N >= 2 children only
		if (nd.declared > 0 && nd.children != nd.declared) || (nd.declared == 0 && nd.children > 1) || nd.leaf == (nd.children > 0) {
			return nil, false
		}
		if nd.depth > maxDepth {
			maxDepth = nd.depth
		}
	}
	for i := 1; i < len(byID); i++ {
		if byID[i].depth < byID[i-1].depth {
			return nil, false // ids are documented to run level by level
		}
	}
	rows = make([][3]int32, maxDepth+1)
	for _, nd := range nodes {
		rows[nd.depth][0]++
		if nd.leaf {
			rows[nd.depth][2]++
		} else {
			rows[nd.depth][1]++
		}
	}
	for d := 1; d <= maxDepth; d++ {
		for j := 0; j < 3; j++ {
			rows[d][j] += rows[d-1][j]
		}
	}
	return rows, true
}

// survivorCheck re-reads an instance that was built and checked earlier, after
// other tries have been built and loaded since: a built trie must not share
// mutable memory with the builder or with any other instance.
func (e *lookupEnv) survivorCheck(qs []string) {
	m := e.model
	e.survivor = true
	e.stride = 1
	if len(m.Keys) > 400 {
		e.stride = len(m.Keys) / 400
	}
	sq := qs
	if len(sq) > 400 {
		sq = make([]string, 0, 401)
		for i := 0; i < len(qs); i += len(qs) / 400 {
			sq = append(sq, qs[i])
		}
	}
	// only what the property itself promises is asked again (a survivor that
	// breaks another property is that property's finding)
	switch e.prop {
	case "C01":
		e.oracleC01()
	case "C02":
		e.oracleC02()
	case "C03":
		e.oracleC03(sq)
	case "C09":
		e.oracleC09()
	case "C10":
		e.oracleC10(sq, false, true)
	case "C14":
		e.oracleC14(sq)
	case "C18":
		e.oracleC18()
	case "C06":
		e.oracleC01()
		e.oracleC02()
		e.oracleC09()
	default:
		return
	}
	e.ctx.Count("survivor_rechecks", 1)
}

// ---- case driver ----------------------------------------------------------

// runLookupCase drives one key/value list through the option sets and
// instances, with the oracles of prop enabled.
func runLookupCase(ctx *Ctx, prop string, lc *LCase, caseIdx int) {
	p := lprofiles[prop]
	n := len(lc.Keys)
	qs := lc.Queries
	needQ := prop == "C03" || prop == "C10" || prop == "C13" || prop == "C14"
	if qs == nil && needQ {
		qs = genQueries(lc.R.Fork(), lc.Keys, lc.QMax)
	}
	enc := lc.Vals.Encoder()
	if prop == "C14" && caseIdx%3 == 1 && !lc.Exh {
		// an application's own little-endian integer encoder (same bytes as
		// encode.I8..I64) that decodes to a defined type: the leaves are
		// little-endian integers all the same, so the typed getters apply
		enc = UserLE{Kind: lc.Vals.Kind}
		ctx.Count("cases_with_a_user_defined_little_endian_encoder", 1)
	}
	vslice := lc.Vals.Slice()
	models := map[bool]*Model{true: NewModel(lc.Keys, lc.Vals, true), false: NewModel(lc.Keys, lc.Vals, false)}

	ctx.Eval()
	if len(models[true].RetKeys) >= 2 {
		ctx.Nontrivial(lc.hash())
	}
	if !lc.Exh {
		ctx.Count("family:"+lc.Family, 1)
		ctx.Count("valkind:"+lc.Vals.Kind, 1)
		ctx.Max("keys", int64(n))
		if len(models[true].RetKeys) < n {
			ctx.Count("cases:with_dropped_keys", 1)
			classifyDropped(ctx, models[true])
		}
	}

	type perOpt struct {
		res []qres
		ok  bool
	}
	results := make([]perOpt, 16)
	resultsLoaded := make([]perOpt, 16)
	var resultGolden perOpt
	goldenAt := -1
	resultsMigrated := make([]perOpt, 16)
	nMigrated := 0
	opts := allOptSets()
	sampled := false
	var prevEnv *lookupEnv
	for oi, o := range opts {
		ctx.Beat()
		if p.onlyCompl && !o.Complete() {
			continue
		}
		if lc.Golden != nil && o != lc.Golden.Opt && prop != "C13" {
			continue
		}
		if len(lc.Keys) > 200000 && oi != 8 && oi != 9 {
			continue // hundreds of thousands of keys: the default and the complete option set
		}
		m := models[o.D]
		opt := o.Opt()
		spell := "explicit"
		// rotating: one of the 81 nil/false/true spellings that normalises to o
		if !lc.Exh && (caseIdx+oi)%4 == 0 {
			for t := 0; t < 30; t++ {
				code := lc.R.Intn(81)
				to, set := triOpt(code)
				if set.Inner() == o.Inner() && set.Leaf() == o.Leaf() && set.D == o.D {
					opt = to
					spell = fmt.Sprintf("tri-%d", code)
					break
				}
			}
		}
		st, err, pv, stack := buildTrie(enc, lc.Keys, vslice, opt)
		env := &lookupEnv{ctx: ctx, prop: prop, lc: lc, opt: o, model: m, inst: "fresh", st: st}
		if pv != nil {
			env.viol("build-panic", "", map[string]interface{}{"panic": fmt.Sprint(pv), "stack": stack, "opt_spelling": spell})
			continue
		}
		if err != nil {
			if strings.HasPrefix(lc.Family, "directed:overlong-run") && errors.Cause(err) == trie.ErrKeyTooLong && !o.Inner() {
				ctx.Count("overlong_lists_refused_without_inner_prefixes", 1)
				continue
			}
			env.viol("build-error", "", map[string]interface{}{"error": err.Error(), "opt_spelling": spell})
			continue
		}
		ctx.Count("tries_built", 1)
		var stream []byte
		var merr error
		pv, stack = try(func() { stream, merr = st.Marshal() })
		if pv != nil || merr != nil {
			env.viol("marshal-failed", "", map[string]interface{}{"panic": fmt.Sprint(pv), "error": fmt.Sprint(merr), "stack": stack})
			continue
		}
		if !lc.Exh && (oi == 0 || oi == 15 || oi == 4) {
			countShape(ctx, classify(parseSlim(stream)))
		} else if lc.Exh && oi == 0 && caseIdx%16 == 0 {
			countShape(ctx, classify(parseSlim(stream)))
		}
		insts := []Inst{{"fresh", st}}
		ld, err, pv, stack := loadTrie(enc, stream)
		if pv != nil || err != nil {
			env.inst = "loaded"
			env.viol("load-failed", "", map[string]interface{}{"panic": fmt.Sprint(pv), "error": fmt.Sprint(err), "stack": stack})
		} else {
			insts = append(insts, Inst{"loaded", ld})
		}
		if !lc.Exh && (caseIdx+oi)%8 == 0 {
			pl, err, pv, stack := loadTrieProto(enc, stream)
			if pv != nil || err != nil {
				env.inst = "proto-loaded"
				env.viol("load-failed", "", map[string]interface{}{"panic": fmt.Sprint(pv), "error": fmt.Sprint(err), "stack": stack})
			} else {
				insts = append(insts, Inst{"proto-loaded", pl})
			}
		}
		if lc.Golden != nil && o == lc.Golden.Opt {
			gl, err, pv, stack := loadTrie(enc, lc.Golden.Stream)
			if pv != nil || err != nil {
				env.inst = "golden-loaded"
				env.viol("golden-stream-does-not-load", "", map[string]interface{}{"golden": lc.Golden.Name, "panic": fmt.Sprint(pv), "error": fmt.Sprint(err), "stack": stack,
					"what": "a current-format stream persisted by the pinned release no longer loads"})
			} else {
				insts = append(insts, Inst{"golden-loaded", gl})
			}
		}
		// an instance that held another trie (and answered reads) before a direct Unmarshal
		if !lc.Exh && (caseIdx+oi)%4 == 1 {
			var oldVals interface{}
			if !lc.Vals.IsNone() && n >= 3 {
				oldVals = lc.Vals.Prefix(3).Slice()
			}
			rl, err, pv, stack := loadTrieReused(enc, stream, oldVals)
			if pv != nil || err != nil {
				env.inst = "reloaded"
				env.viol("load-failed", "", map[string]interface{}{"panic": fmt.Sprint(pv), "error": fmt.Sprint(err), "stack": stack})
			} else {
				insts = append(insts, Inst{"reloaded", rl})
			}
		}
		// a by-value copy of a SlimTrie (index.SlimIndex embeds one that way) is
		// a snapshot: reloading or resetting the original must not reach it
		if !lc.Exh && (caseIdx+oi)%4 == 2 {
			if orig, err, pv, _ := loadTrie(enc, stream); err == nil && pv == nil {
				snap := *orig
				try(func() {
					other, _ := trie.NewSlimTrie(enc, []string{"p", "q"}, nil)
					ob, _ := other.Marshal()
					if (caseIdx+oi)%8 == 2 {
						// loads that are refused (too short for a header, foreign
						// version, cut body) come first: the original still holds
						// what the copy holds when they fail
						try(func() { orig.Unmarshal(ob[:11]) })
						try(func() { orig.Unmarshal(withVersion(ob, "0.6.1")) })
						try(func() { orig.Unmarshal(ob[:len(ob)-1]) })
					}
					orig.Unmarshal(ob)
					proto.Unmarshal(ob, orig)
					orig.Reset()
				})
				insts = append(insts, Inst{"snapshot-copy", &snap})
			}
		}
		// the same index in historical layouts (fixed-size values only): 0.5.10
		// for the three option sets that version could write, three-section for
		// the default one. The builder is trusted here only as far as C06 does:
		// the fresh instance is checked by the same oracle in this very case.
		if !lc.Exh && o.D && (lc.Vals.FixedSize() || (lc.Vals.Kind == "none" && prop != "C09" && prop != "C14")) && ((caseIdx+oi)%2 == 0 || prop == "C13") {
			if (!o.L && !o.C) || (o.C && !o.I && !o.L) {
				if ls, err := legacyStream0510(stream, []string{"0.5.10", "0.5.11"}[caseIdx%2]); err == nil {
					if lg, err, pv, _ := loadTrie(enc, ls); err == nil && pv == nil {
						insts = append(insts, Inst{"legacy-0.5.10-loaded", lg})
						// migration: what the instance loaded from old data writes
						// is loaded again (by the next release, say)
						try(func() {
							if mb, merr := lg.Marshal(); merr == nil {
								if rg, err, pv, _ := loadTrie(enc, mb); err == nil && pv == nil {
									insts = append(insts, Inst{"legacy-migrated", rg})
								}
							}
						})
					}
				}
			}
			if !o.I && !o.L && !o.C && lc.Vals.Kind != "none" {
				if ls, ok := legacyStream3(lc.Keys, lc.Vals, oldVariants[(caseIdx/2)%len(oldVariants)]); ok {
					if lg, err, pv, _ := loadTrie(enc, ls); err == nil && pv == nil {
						insts = append(insts, Inst{"legacy-3sec-loaded", lg})
					}
				}
			}
		}
		// C10 says "on any trie": also one whose in-place reload has just been
		// refused (foreign version, or cut inside the header). Whether it now
		// answers as an empty trie is C07's business; here every lookup must
		// still return, consistently, with values that were once supplied.
		if prop == "C10" && !lc.Exh && (caseIdx+oi)%4 == 3 {
			if rj, err, pv, _ := loadTrie(enc, stream); err == nil && pv == nil {
				if len(lc.Keys) > 0 {
					rj.Get(lc.Keys[len(lc.Keys)/2])
				}
				var rerr error
				try(func() {
					if (caseIdx+oi)%8 == 3 {
						rerr = rj.Unmarshal(withVersion(stream, "9.9.9"))
					} else {
						rerr = rj.Unmarshal(stream[:min(len(stream), 7+caseIdx%20)])
					}
				})
				if rerr != nil {
					insts = append(insts, Inst{"after-refused-reload", rj})
				}
			}
			// ... and a zero-value SlimTrie (a struct field, say) whose very first
			// load was refused at the header: it holds nothing, and says so
			if (caseIdx+oi)%16 == 3 {
				z := &trie.SlimTrie{}
				var zerr error
				try(func() {
					switch caseIdx % 3 {
					case 0:
						zerr = z.Unmarshal(nil)
					case 1:
						zerr = z.Unmarshal(stream[:min(len(stream), 5+caseIdx%25)])
					default:
						zerr = z.Unmarshal(withVersion(stream, "7.0.0"))
					}
				})
				if zerr != nil {
					ctx.Count("instances:zero-value-after-refused-first-load", 1)
					zenv := &lookupEnv{ctx: ctx, prop: prop, lc: lc, opt: o, model: NewModel(nil, genVals(lc.R.Fork(), "none", 0, 0), o.D), inst: "zero-value-after-refused-first-load", st: z}
					zenv.oracleC10(qs[:min(len(qs), 200)], false, true)
				}
			}
		}
		// C18 is about whatever the instance holds: after a direct load that was
		// refused, an instance that answers as an empty trie must report (0 keys,
		// 0 nodes), and one that still serves its keys must report them. (Which of
		// the two it is after a refusal is C07's business and is not judged here.)
		if prop == "C18" && !lc.Exh && (caseIdx+oi)%4 == 3 && len(m.RetKeys) >= 2 {
			if rj, err, pv, _ := loadTrie(enc, stream); err == nil && pv == nil {
				env.inst = "after-refused-reload"
				env.st = rj
				var rerr error
				var s0, s1 *trie.Stat
				kind := []string{"foreign-version", "cut-header", "cut-body", "empty-buffer"}[((caseIdx+oi)/4)%4]
				pv, stack := try(func() {
					s0 = rj.Stat()
					switch kind {
					case "foreign-version":
						rerr = rj.Unmarshal(withVersion(stream, "9.9.9"))
					case "cut-header":
						rerr = rj.Unmarshal(stream[:min(len(stream), 7+caseIdx%20)])
					case "cut-body":
						rerr = rj.Unmarshal(stream[:len(stream)-1-caseIdx%3])
					default:
						rerr = rj.Unmarshal(nil)
					}
					s1 = rj.Stat()
				})
				if pv != nil {
					env.viol("panic", "", map[string]interface{}{"refused_load": kind, "panic": fmt.Sprint(pv), "stack": stack})
				} else if rerr != nil && s0 != nil && s1 != nil {
					found := 0
					stride := 1 + len(m.RetKeys)/300
					asked := 0
					try(func() {
						for i := 0; i < len(m.RetKeys); i += stride {
							asked++
							if rj.GetID(m.RetKeys[i]) >= 0 {
								found++
							}
						}
					})
					ex := map[string]interface{}{"refused_load": kind, "error": rerr.Error(), "stat_before": fmt.Sprintf("%+v", *s0), "stat_after": fmt.Sprintf("%+v", *s1), "retained_keys_asked": asked, "still_found": found}
					switch {
					case found == 0 && (s1.KeyCnt != 0 || s1.NodeCnt != 0):
						ex["what"] = "after the refused load no key is found any more, but Stat still reports keys / nodes"
						env.viol("stat-after-refused-load", "", ex)
					case found == asked && int(s1.KeyCnt) != len(m.RetKeys):
						ex["what"] = "after the refused load every key is still found, but Stat does not report them"
						env.viol("stat-after-refused-load", "", ex)
					default:
						ctx.Count("stat_after_refused_load_consistent", 1)
					}
				}
			}
		}
		// the instance of the previous option set is still alive: read it again
		// now that another trie of the same size has been built and loaded
		if prevEnv != nil && prop != "C13" {
			prevEnv.survivorCheck(qs)
		}
		violBefore := ctx.nviol
		var stat0 *trie.Stat
		for ii, in := range insts {
			ctx.Beat()
			env.inst = in.Name
			env.st = in.St
			ctx.Count("instances:"+in.Name, 1)
			switch prop {
			case "C01":
				env.oracleC01()
			case "C02":
				env.oracleC02()
				if ii == 0 && lc.Vals.Kind == "i64" && o.D && !o.I && !o.L && !o.C {
					oracleC02Index(env)
				}
			case "C03":
				env.oracleC03(qs)
			case "C09":
				env.oracleC09()
			case "C10":
				env.oracleC10(qs, false, true)
			case "C13":
				res := env.oracleC10(qs, ii <= 1 || in.Name == "golden-loaded" || in.Name == "legacy-migrated", false)
				if ii == 0 {
					results[oi] = perOpt{res, res != nil}
				} else if ii == 1 {
					resultsLoaded[oi] = perOpt{res, res != nil}
				} else if in.Name == "golden-loaded" {
					resultGolden = perOpt{res, res != nil}
					goldenAt = oi
				} else if in.Name == "legacy-migrated" {
					resultsMigrated[oi] = perOpt{res, res != nil}
					nMigrated++
				}
			case "C14":
				env.oracleC14(qs)
			case "C18":
				s := env.oracleC18()
				if ii == 0 {
					stat0 = s
				} else if in.Name == "legacy-3sec-loaded" || in.Name == "golden-loaded" {
					// another structure (no 257-bit nodes): only the key count carries over
					if s != nil && stat0 != nil && s.KeyCnt != stat0.KeyCnt {
						env.viol("stat-keycnt-legacy", "", map[string]interface{}{"fresh": stat0.KeyCnt, in.Name: s.KeyCnt})
					}
				} else if s != nil && stat0 != nil && fmt.Sprintf("%+v", *s) != fmt.Sprintf("%+v", *stat0) {
					env.viol("stat-changed-by-roundtrip", "", map[string]interface{}{"fresh": fmt.Sprintf("%+v", *stat0), in.Name: fmt.Sprintf("%+v", *s)})
				}
			}
		}
		prevEnv = nil
		if (!lc.Exh || oi%4 == 0) && ctx.nviol == violBefore { // only an instance that answered correctly can "change"
			prevEnv = &lookupEnv{ctx: ctx, prop: prop, lc: lc, opt: o, model: m, inst: "survivor(fresh)", st: st}
			if len(insts) > 1 && oi%2 == 1 {
				prevEnv.st, prevEnv.inst = insts[1].St, "survivor("+insts[1].Name+")"
			}
		}
		if !sampled && !lc.Exh && ctx.WantSample() && n > 0 && n <= 12 {
			sampled = true
			d := lc.describe()
			d["opt"] = o.String()
			q := lc.Keys[n-1]
			if len(qs) > 0 {
				q = qs[len(qs)/2]
			}
			try(func() {
				v, f := st.Get(q)
				d["example_query_hex"] = hexq(q)
				d["example_Get"] = []interface{}{show(v), f}
			})
			ctx.Sample(d)
		}
	}

	// C14 in company: the first typed reads of a never-read instance are made by
	// several goroutines at once (a trie shared by the request handlers of a
	// server is first read exactly like that); each answer is compared with the
	// supplied value.
	if prop == "C14" && !lc.Exh && lc.Golden == nil && n >= 300 && !lc.Vals.IsNone() {
		o := opts[caseIdx%16]
		m := models[o.D]
		if st, err, pv, _ := buildTrie(enc, lc.Keys, vslice, o.Opt()); err == nil && pv == nil {
			const G = 8
			kind := lc.Vals.Kind
			bad := make([]string, G)
			done := make(chan int, G)
			start := make(chan struct{})
			for g := 0; g < G; g++ {
				go func(g int) {
					defer func() {
						if p := recover(); p != nil {
							bad[g] = "panic: " + fmt.Sprint(p)
						}
						done <- g
					}()
					<-start
					nr := len(m.RetKeys)
					for t := 0; t < 300; t++ {
						r := (g*7919 + t*(nr/300+1) + nr - 1 - t%2*(nr/2)) % nr
						if r < 0 {
							r += nr
						}
						k := m.RetKeys[r]
						var tv int64
						var f bool
						switch kind {
						case "i8":
							x, ff := st.GetI8(k)
							tv, f = int64(x), ff
						case "i16":
							x, ff := st.GetI16(k)
							tv, f = int64(x), ff
						case "i32":
							x, ff := st.GetI32(k)
							tv, f = int64(x), ff
						case "i64":
							tv, f = st.GetI64(k)
						default:
							return
						}
						if want := reflect.ValueOf(m.ValAt(r)).Int(); !f || tv != want {
							bad[g] = fmt.Sprintf("typed getter on retained key %x: (%d,%v), supplied value %d", k, tv, f, want)
							return
						}
					}
				}(g)
			}
			close(start)
			for g := 0; g < G; g++ {
				<-done
			}
			for g := 0; g < G; g++ {
				if bad[g] != "" {
					e := &lookupEnv{ctx: ctx, prop: prop, lc: lc, opt: o, model: m, inst: "fresh, first read by 8 goroutines at once"}
					e.viol("typed-getter-in-company", "", map[string]interface{}{"what": bad[g]})
					break
				}
			}
			ctx.Count("first_reads_by_8_goroutines", 1)
		}
	}

	// C18 in company: several goroutines build and load their OWN tries at the
	// same time (a server building one index per shard does this); each report
	// must be what the same build reports when it runs alone.
	if prop == "C18" && !lc.Exh && lc.Golden == nil && n >= 20 && caseIdx%3 == 0 {
		const G = 6
		solo := make([]string, G)
		for g := 0; g < G; g++ {
			if st, err, pv, _ := buildTrie(enc, lc.Keys, lc.Vals.Slice(), opts[(g*3)%16].Opt()); err == nil && pv == nil {
				solo[g] = fmt.Sprintf("%+v", *st.Stat())
			}
		}
		type pres struct{ bad string }
		out := make(chan pres, G)
		start := make(chan struct{})
		for g := 0; g < G; g++ {
			go func(g int, vals interface{}) {
				r := pres{}
				defer func() {
					if p := recover(); p != nil {
						r.bad = "panic: " + fmt.Sprint(p)
					}
					out <- r
				}()
				<-start
				for round := 0; round < 4 && r.bad == ""; round++ {
					st, err := trie.NewSlimTrie(enc, lc.Keys, vals, opts[(g*3)%16].Opt())
					if err != nil {
						return
					}
					if got := fmt.Sprintf("%+v", *st.Stat()); solo[g] != "" && got != solo[g] {
						r.bad = "built concurrently: " + got + " alone: " + solo[g]
						return
					}
					b, _ := st.Marshal()
					ld, _ := trie.NewSlimTrie(enc, nil, nil)
					for rep := 0; rep < 25; rep++ {
						if ld.Unmarshal(b) != nil {
							break
						}
						s := ld.Stat()
						if got := fmt.Sprintf("%+v", *s); solo[g] != "" && got != solo[g] {
							r.bad = "loaded concurrently: " + got + " alone: " + solo[g]
							return
						}
					}
				}
			}(g, lc.Vals.Slice())
		}
		close(start)
		for g := 0; g < G; g++ {
			if r := <-out; r.bad != "" {
				d := lc.describe()
				d["what"] = truncate(r.bad, 600)
				ctx.Violate("C18/stat-differs-when-built-in-company", d)
			}
		}
		ctx.Count("concurrent_build_rounds", 1)
	}

	if prop == "C13" {
		oracleC13(ctx, lc, qs, models, opts, "fresh", func(i int) ([]qres, bool) { return results[i].res, results[i].ok })
		// the relation is about tries, however they came to be: the loaded ones too
		oracleC13(ctx, lc, qs, models, opts, "loaded", func(i int) ([]qres, bool) { return resultsLoaded[i].res, resultsLoaded[i].ok })
		// ... and a stream persisted by the pinned release takes the place of its
		// option set among the freshly built ones
		// ... and so do the indexes that were written by 0.5.10/0.5.11, loaded,
		// written again by this code and loaded again (nopref, innpref and allpref
		// of the same entries, side by side)
		if nMigrated >= 2 {
			oracleC13(ctx, lc, qs, models, opts, "legacy-migrated", func(i int) ([]qres, bool) {
				if resultsMigrated[i].ok {
					return resultsMigrated[i].res, true
				}
				return results[i].res, results[i].ok
			})
			ctx.Count("relation_with_migrated_legacy_streams", 1)
		}
		if goldenAt >= 0 {
			oracleC13(ctx, lc, qs, models, opts, "golden-loaded", func(i int) ([]qres, bool) {
				if i == goldenAt {
					return resultGolden.res, resultGolden.ok
				}
				return results[i].res, results[i].ok
			})
			ctx.Count("relation_with_golden_stream", 1)
		}
	}
}

// classifyDropped records, for evidence and gates, the relation of each
// de-duplicated key to the retained key that starts its run.
func classifyDropped(ctx *Ctx, m *Model) {
	ext, div, beyond := 0, 0, 0
	for i, k := range m.Keys {
		own := m.Ret[m.OwnerOf[i]]
		if own == i {
			continue
		}
		start := m.Keys[own]
		if len(k) > len(start) && k[:len(start)] == start {
			ext++
			continue
		}
		// does any retained key share a longer prefix with k than start does?
		cp := commonPrefixBits(k, start)
		// the next retained key, if any
		nxt := m.OwnerOf[i] + 1
		if nxt < len(m.Ret) && commonPrefixBits(k, m.Keys[m.Ret[nxt]]) > cp {
			beyond++ // k lies in a branch that only a later retained key enters
		} else {
			div++
		}
	}
	if ext > 0 {
		ctx.Count("dropped:extends_range_start", int64(ext))
	}
	if div > 0 {
		ctx.Count("dropped:diverges_from_range_start", int64(div))
	}
	if beyond > 0 {
		ctx.Count("dropped:closer_to_next_retained", int64(beyond))
	}
}

func commonPrefixBits(a, b string) int {
	n := 0
	for i := 0; i < len(a) && i < len(b); i++ {
		x := a[i] ^ b[i]
		if x == 0 {
			n += 8
			continue
		}
		for bit := 7; bit >= 0; bit-- {
			if x>>uint(bit)&1 == 1 {
				break
			}
			n++
		}
		break
	}
	return n
}

// oracleC13: metamorphic relation across option sets with equal DedupValue.
func oracleC13(ctx *Ctx, lc *LCase, qs []string, models map[bool]*Model, opts []OptSet, instKind string, get func(int) ([]qres, bool)) {
	var nImpl int64
	for mi, more := range opts {
		rm, ok := get(mi)
		if !ok {
			continue
		}
		m := models[more.D]
		// Complete finds only retained keys; every mode agrees on retained keys
		for qi, q := range qs {
			_, eq := m.Find(q)
			if more.Complete() && rm[qi].found != eq {
				d := lc.describe()
				d["opt"] = more.String()
				d["instances"] = instKind
				d["query_hex"] = hexq(q)
				d["found"] = rm[qi].found
				d["retained"] = eq
				ctx.Violate("C13/complete-not-exact/"+more.String(), d)
				return
			}
			if eq && !rm[qi].found {
				d := lc.describe()
				d["opt"] = more.String()
				d["query_hex"] = hexq(q)
				ctx.Violate("C13/retained-key-missed/"+more.String(), d)
				return
			}
		}
		for li, less := range opts {
			if less.D != more.D || li == mi {
				continue
			}
			im, il := more.Info(), less.Info()
			if im&il != il || im == il {
				continue // less must store a strict subset of what more stores
			}
			rl, ok := get(li)
			if !ok {
				continue
			}
			for qi, q := range qs {
				if rm[qi].found {
					nImpl++
					if !rl[qi].found || !sameVal(rl[qi].val, rm[qi].val) {
						d := lc.describe()
						d["query_hex"] = hexq(q)
						d["instances"] = instKind
						d["more_info_opt"] = more.String()
						d["less_info_opt"] = less.String()
						d["more"] = []interface{}{show(rm[qi].val), rm[qi].found}
						d["less"] = []interface{}{show(rl[qi].val), rl[qi].found}
						ctx.Violate("C13/implication/"+more.String()+">"+less.String(), d)
						return
					}
				}
			}
		}
		// identical behaviour of option sets that normalise to the same thing
		for li, other := range opts {
			if li <= mi || other.D != more.D || other.Info() != more.Info() {
				continue
			}
			ro, ok := get(li)
			if !ok {
				continue
			}
			for qi, q := range qs {
				if ro[qi].found != rm[qi].found || !sameVal(ro[qi].val, rm[qi].val) {
					d := lc.describe()
					d["query_hex"] = hexq(q)
					d["opt_a"] = more.String()
					d["opt_b"] = other.String()
					ctx.Violate("C13/equivalent-options-differ/"+more.String()+"="+other.String(), d)
					return
				}
			}
		}
	}
	ctx.Count("implications_checked", nImpl)
}

// offsetReader returns the decimal offset: lets the oracle see which offset
// the index resolved to.
type offsetReader struct{}

func (offsetReader) Read(offset int64, key string) (string, bool) {
	return strconv.FormatInt(offset, 10), true
}

// oracleC02Index: the same range property through index.SlimIndex.
func oracleC02Index(e *lookupEnv) {
	lc := e.lc
	items := make([]index.OffsetIndexItem, len(lc.Keys))
	for i, k := range lc.Keys {
		items[i] = index.OffsetIndexItem{Key: k, Offset: lc.Vals.Ints[i]}
	}
	var si *index.SlimIndex
	var err error
	cur := ""
	pv, stack := try(func() {
		si, err = index.NewSlimIndex(items, offsetReader{})
		if err != nil {
			return
		}
		for i, k := range lc.Keys {
			cur = k
			got, found := si.RangeGet(k)
			want := strconv.FormatInt(lc.Vals.Ints[i], 10)
			if !found || got != want {
				e.inst = "SlimIndex"
				e.viol("index-rangeget", k, map[string]interface{}{"expected": want, "observed": got, "found": found})
				return
			}
		}
	})
	if pv != nil {
		e.inst = "SlimIndex"
		e.viol("index-panic", cur, map[string]interface{}{"panic": fmt.Sprint(pv), "stack": stack})
	} else if err != nil {
		e.inst = "SlimIndex"
		e.viol("index-build-error", "", map[string]interface{}{"error": err.Error()})
	}
	e.ctx.Count("calls:SlimIndex.RangeGet", int64(len(lc.Keys)))
}

// runLookupExh runs one chunk of the exhaustive universe.
func runLookupExh(ctx *Ctx, prop string, sp *ExhSpace, subs [][]int, caseIdx int) {
	for si, sub := range subs {
		keys := make([]string, len(sub))
		for i, x := range sub {
			keys[i] = sp.Univ[x]
		}
		pats := runPatterns(len(keys))
		for pi, pat := range pats {
			v := &ValSpec{Kind: "i32", Ints: make([]int64, len(pat))}
			for i, x := range pat {
				v.Ints[i] = x % 3
			}
			lc := &LCase{Family: "exhaustive", Keys: keys, Vals: v, Queries: sp.Queries, Exh: true, R: NewRNG(1)}
			runLookupCase(ctx, prop, lc, caseIdx*64+si+pi)
			ctx.Count("exhaustive:valued_lists", 1)
		}
		if prop != "C09" && prop != "C02" {
			lc := &LCase{Family: "exhaustive", Keys: keys, Vals: &ValSpec{Kind: "none"}, Queries: sp.Queries, Exh: true, R: NewRNG(1)}
			runLookupCase(ctx, prop, lc, caseIdx*64+si)
		}
		ctx.Count("exhaustive:key_sets", 1)
	}
}

func lookupCheckDef(prop string, rule string, gates func(tier string, m *Merged) []string) *CheckDef {
	p := lprofiles[prop]
	def := &CheckDef{
		ID: prop, Level: "exploration", Rule: rule,
		NumCases: p.numCases,
		Run: func(ctx *Ctx, idx int) {
			lc, sp, subs := p.caseAt(ctx, idx)
			if lc != nil {
				runLookupCase(ctx, prop, lc, idx)
			} else {
				runLookupExh(ctx, prop, sp, subs, idx)
			}
		},
		MinNontrivial: func(tier string) int {
			if tier == "thorough" {
				return 5000
			}
			return 500
		},
		Gates: gates,
		Assumptions: []string{
			"the reference model in harness/model.go (sorted list + binary search, retained set by encoded-value equality with the predecessor) is correct",
			"reference value encodings in harness/gen_vals.go are the documented on-disk layouts",
			"Go runtime and recover() semantics",
		},
		Exhaustive: func(tier string) bool { return false },
	}
	if p.raceCases > 0 {
		def.RaceCases = func(tier string) int {
			if tier == "thorough" {
				return len(directedKeySets())*2 + numBig(tier) + len(loadGolden()) + p.raceCases
			}
			return 0
		}
	}
	if p.usesExhaustive() {
		def.Finish = func(tier string, m *Merged, cov map[string]interface{}) {
			sps := exhSpaces(tier)
			total := 0
			for _, s := range sps {
				total += len(s.Subsets)
			}
			cov["exhaustive_part"] = map[string]interface{}{
				"universes": len(sps), "key_sets_in_scope": total, "key_sets_executed": m.C("exhaustive:key_sets"),
				"complete": int64(total) == m.C("exhaustive:key_sets"),
				"what":     "every key set of size <=k over the small universes, every adjacent-equality pattern of values plus no values, all 16 option sets (C03: the complete ones), every universe string and its 00/ff extensions as query",
			}
		}
	}
	return def
}

func shapeGates(need ...string) func(tier string, m *Merged) []string {
	return func(tier string, m *Merged) []string {
		var missed []string
		for _, g := range need {
			if m.C(g) == 0 {
				missed = append(missed, g)
			}
		}
		return missed
	}
}

var _ = encode.I32{}

func init() {
	commonShapes := []string{"shape:with_257bit_nodes", "shape:with_257bit_below_root", "shape:with_17bit_nodes", "shape:with_short_nodes",
		"shape:with_straddling_short", "shape:with_end_of_key_label", "shape:with_step_ge256", "shape:with_halfbyte_prefix", "shape:with_aligned_prefix",
		"instances:fresh", "instances:loaded", "instances:proto-loaded", "instances:reloaded", "instances:golden-loaded", "instances:snapshot-copy", "instances:legacy-0.5.10-loaded", "instances:legacy-3sec-loaded", "shape:nodes_gt_65535", "shape:with_more_than_257_big_nodes"}
	register(lookupCheckDef("C01",
		"case = (key list, value list+encoder); each case is run under all 16 option sets on fresh, Unmarshal-loaded and (rotating) proto.Unmarshal-loaded, reloaded (direct Unmarshal into an instance that held another trie and answered reads) and legacy-layout-loaded (0.5.10/0.5.11, three-section; fixed-size values) instances; oracle: Get/GetID on every retained key; non-trivial = at least 2 retained keys (so at least one inner node); distinct by hash of keys and encoded values",
		shapeGates(append([]string{"shape:with_varlen_leaves", "shape:with_empty_leaves", "shape:with_single_label_inner", "cases:with_dropped_keys"}, commonShapes...)...)))
	register(lookupCheckDef("C02",
		"case = (key list, run-length value list+encoder) x 16 option sets x fresh/loaded; oracle: RangeGet on every input key (retained or de-duplicated) returns the value supplied for it, also through index.SlimIndex; non-trivial = at least 2 retained keys; distinct by hash of keys and encoded values",
		shapeGates(append([]string{"dropped:extends_range_start", "dropped:diverges_from_range_start", "dropped:closer_to_next_retained", "calls:SlimIndex.RangeGet", "shape:with_single_label_inner"}, commonShapes...)...)))
	register(lookupCheckDef("C03",
		"case = (key list, value list) x the option sets that store complete keys x fresh/loaded; oracle: exact ordered-map model for Get, GetID, RangeGet, Search on the query set Q(K) (keys, prefixes, 00/ff extensions, bit/byte mutations, below-first/above-last, empty, random, long, all-00/all-ff); non-trivial = at least 2 retained keys",
		shapeGates("shape:with_257bit_nodes", "shape:with_17bit_nodes", "shape:with_short_nodes", "shape:with_straddling_short", "shape:with_end_of_key_label",
			"shape:with_halfbyte_prefix", "shape:with_aligned_prefix", "queries:present", "queries:absent", "instances:loaded", "instances:proto-loaded")))
	register(lookupCheckDef("C09",
		"case = (key list, value list) x 16 option sets x fresh/loaded; oracle: Search(k) for every retained key k returns (value of previous retained | nil, own value, value of next retained | nil); non-trivial = at least 2 retained keys",
		shapeGates(append([]string{"shape:with_single_label_inner", "cases:with_dropped_keys"}, commonShapes...)...)))
	c10 := lookupCheckDef("C10",
		"case = (key list, value list or none) x 16 option sets x fresh/loaded; oracle on every query of Q(K): no panic, returns; Get/GetID/Search.eq agree; Get found => RangeGet found with the same value; every reported value is one of the supplied values; non-trivial = at least 2 retained keys",
		shapeGates(append([]string{"queries:false_positive", "valkind:none", "returned_values_scribbled", "family:directed:empty", "family:directed:single-1"}, commonShapes...)...))
	c10.HangIsViolation = true
	c10.MemoryIsViolation = true
	c10.HangSeconds = 120
	register(c10)
	register(lookupCheckDef("C13",
		"case = (key list, value list) built under all 16 option sets; oracle: for every query and every ordered pair of option sets (equal DedupValue) where one stores strictly more prefix information, found(more) => found(less) with the same value; Complete finds exactly the retained keys; option sets that normalise equally answer identically; non-trivial = at least 2 retained keys",
		shapeGates("implications_checked", "shape:with_257bit_nodes", "shape:with_short_nodes", "shape:with_halfbyte_prefix", "family:directed:run-34000-halfbytes")))
	register(lookupCheckDef("C14",
		"case = (key list, full-range integer values of width 8/16/32/64) x 16 option sets x fresh/loaded; oracle: GetI8/16/32/64(q) == Get(q) in found flag and number for every query of Q(K); non-trivial = at least 2 retained keys",
		shapeGates("valkind:i8", "valkind:i16", "valkind:i32", "valkind:i64", "cases:with_dropped_keys", "queries:found", "instances:loaded", "instances:golden-loaded", "instances:reloaded", "instances:legacy-0.5.10-loaded", "instances:legacy-3sec-loaded")))
}
