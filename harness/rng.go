package main

import (
	"hash/fnv"
	"sort"
)

// RNG is a splitmix64 generator. Every workload in this harness is a pure
// function of (VERIF_SEED, property, tier, case index) through this type.
type RNG struct{ s uint64 }

func NewRNG(seed uint64) *RNG { return &RNG{s: seed} }

func (r *RNG) U64() uint64 {
	r.s += 0x9e3779b97f4a7c15
	z := r.s
	z = (z ^ (z >> 30)) * 0xbf58476d1ce4e5b9
	z = (z ^ (z >> 27)) * 0x94d049bb133111eb
	return z ^ (z >> 31)
}

// Intn returns a value in [0,n). n<=0 returns 0.
func (r *RNG) Intn(n int) int {
	if n <= 1 {
		return 0
	}
	return int(r.U64() % uint64(n))
}

// Range returns a value in [lo,hi].
func (r *RNG) Range(lo, hi int) int {
	if hi <= lo {
		return lo
	}
	return lo + r.Intn(hi-lo+1)
}

func (r *RNG) Bool() bool { return r.U64()&1 == 1 }

// Chance is true with probability num/den.
func (r *RNG) Chance(num, den int) bool { return r.Intn(den) < num }

func (r *RNG) Bytes(n int) []byte {
	b := make([]byte, n)
	for i := 0; i < n; i += 8 {
		v := r.U64()
		for j := 0; j < 8 && i+j < n; j++ {
			b[i+j] = byte(v >> (8 * uint(j)))
		}
	}
	return b
}

func (r *RNG) Pick(ss []string) string { return ss[r.Intn(len(ss))] }

func (r *RNG) Perm(n int) []int {
	p := make([]int, n)
	for i := range p {
		p[i] = i
	}
	for i := n - 1; i > 0; i-- {
		j := r.Intn(i + 1)
		p[i], p[j] = p[j], p[i]
	}
	return p
}

// Fork derives an independent generator.
func (r *RNG) Fork() *RNG { return NewRNG(r.U64()) }

func hashStr(parts ...string) uint64 {
	h := fnv.New64a()
	for _, p := range parts {
		h.Write([]byte(p))
		h.Write([]byte{0xff, 0x00})
	}
	return h.Sum64()
}

func mix(a, b uint64) uint64 {
	r := NewRNG(a ^ (b * 0x9e3779b97f4a7c15))
	return r.U64()
}

// caseSeed derives the seed of one case.
func caseSeed(seed uint64, prop, tier string, idx int) uint64 {
	return mix(mix(seed, hashStr(prop, tier)), uint64(idx)+0x1234567)
}

// sortUniq sorts strings bytewise and removes duplicates.
func sortUniq(ks []string) []string {
	sort.Strings(ks)
	out := ks[:0]
	for i, k := range ks {
		if i == 0 || k != ks[i-1] {
			out = append(out, k)
		}
	}
	return out
}
