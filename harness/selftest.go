package main

import "fmt"

func selftest() int {
	fmt.Println("selftest: TODO")
	return 0
}
