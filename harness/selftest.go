package main

import (
	"fmt"
	"io/ioutil"
	"os"
	"os/exec"
	"path/filepath"
	"runtime/debug"
	"strings"
	"sync"
	"unsafe"

	"github.com/openacid/slim/encode"
	"github.com/openacid/slim/trie"
)

// selftest proves the plumbing (not reach): each monitor kind must fire on a
// planted fault in the harness's own stubs, and the writer models must still
// reproduce the archived fixtures.
func selftest() int {
	rc := 0
	fail := func(f string, a ...interface{}) {
		fmt.Printf("selftest FAIL: "+f+"\n", a...)
		rc = 1
	}
	n, err := validateBuildOld()
	fmt.Printf("selftest: three-section writer model reproduces %d archived fixtures, err=%v\n", n, err)
	if err != nil || n < 70 {
		fail("legacy writer model")
	}
	m, total, first := validateDowngrade()
	fmt.Printf("selftest: 0.5.10 downgrade reproduces %d of %d archived fixtures %s\n", m, total, first)
	if m != total {
		fail("0.5.10 downgrade")
	}

	// planted wrong answer: the model is told about a key the trie never got
	{
		keys := []string{"a", "ab", "b"}
		vals := &ValSpec{Kind: "i32", Ints: []int64{1, 2, 3}}
		st, _ := trie.NewSlimTrie(encode.I32{}, keys, vals.Slice(), trie.Opt{Complete: trie.Bool(true)})
		lieKeys := []string{"a", "ab", "abc", "b"}
		lieVals := &ValSpec{Kind: "i32", Ints: []int64{1, 2, 9, 3}}
		ctx := newCtx("SELF", "quick", 1)
		lc := &LCase{Family: "selftest", Keys: lieKeys, Vals: lieVals}
		env := &lookupEnv{ctx: ctx, prop: "SELF", lc: lc, opt: OptSet{D: true, C: true}, model: NewModel(lieKeys, lieVals, true), inst: "fresh", st: st}
		env.oracleC01()
		if ctx.nviol == 0 {
			fail("reference-map oracle did not fire on a planted missing key")
		}
		ctx2 := newCtx("SELF", "quick", 1)
		se := &scanEnv{prop: "SELF", ctx: ctx2, lc: lc, opt: OptSet{D: true, C: true}, model: NewModel(lieKeys, lieVals, true), inst: "fresh", st: st, window: 100}
		se.scanOnce("", true, false, 0, "", false, false)
		if ctx2.nviol == 0 {
			fail("scan sequence oracle did not fire on a planted missing key")
		}
		// and silence on the truth
		ctx3 := newCtx("SELF", "quick", 1)
		env3 := &lookupEnv{ctx: ctx3, prop: "SELF", lc: &LCase{Keys: keys, Vals: vals}, opt: OptSet{D: true, C: true}, model: NewModel(keys, vals, true), inst: "fresh", st: st}
		env3.oracleC01()
		env3.oracleC03([]string{"", "a", "aa", "ab", "abc", "b", "c"})
		if ctx3.nviol != 0 {
			fail("oracles fired on a correct trie")
		}
		fmt.Printf("selftest: planted wrong answers: lookup oracle hits=%d, scan oracle hits=%d; silent on the truth\n", ctx.nviol, ctx2.nviol)
	}

	// planted aliasing / stray write: guard pages
	{
		debug.SetPanicOnFault(true)
		g := NewGuard([]byte("payload"))
		g.ReadOnly()
		pv, _ := try(func() { g.Buf[0] = 'X' })
		if pv == nil {
			fail("store into a read-only guarded buffer did not fault")
		}
		pv, _ = try(func() { sinkByte = g.m[len(g.m)-g.ps] })
		if pv == nil {
			fail("read beyond the guarded buffer did not fault")
		}
		g.NoAccess()
		pv, _ = try(func() { sinkByte = g.Buf[1] })
		if pv == nil {
			fail("load through a retained alias did not fault")
		}
		g.Free()
		// a stub loader that aliases its input: scribble detection
		buf := []byte{1, 2, 3, 4}
		alias := buf[:2]
		before := fmt.Sprint(alias)
		scribble(buf, 1, NewRNG(1))
		if fmt.Sprint(alias) == before {
			fail("scribble did not change an aliasing stub")
		}
		fmt.Println("selftest: guard pages fault recoverably on store, over-read and retained-alias load")
	}

	// planted race: the detector must be live in the race build
	exe, _ := os.Executable()
	raceExe := strings.TrimSuffix(exe, ".race") + ".race"
	if _, err := os.Stat(raceExe); err == nil {
		dir, _ := ioutil.TempDir(filepath.Join(verifRoot, ".work"), "selfrace")
		defer os.RemoveAll(dir)
		cmd := exec.Command(raceExe, "selftest-race")
		cmd.Env = append(os.Environ(), "GORACE=halt_on_error=0 log_path="+filepath.Join(dir, "race"))
		out, _ := cmd.CombinedOutput()
		reports := collectRaceReports(dir)
		fmt.Printf("selftest: planted race -> %d report(s) from the race detector (%s)\n", len(reports), strings.TrimSpace(string(out)))
		if len(reports) == 0 {
			fail("race detector did not report the planted race")
		}
	} else {
		fail("race build of the harness not found at %s", raceExe)
	}
	// planted over-read: AddressSanitizer must be live in the asan build (the
	// build is optional: without it the thorough tier runs no asan pass)
	asanExe := strings.TrimSuffix(exe, ".race") + ".asan"
	if _, err := os.Stat(asanExe); err == nil {
		cmd := exec.Command(asanExe, "selftest-asan")
		cmd.Env = append(os.Environ(), "ASAN_OPTIONS=halt_on_error=1:abort_on_error=0:detect_leaks=0:exitcode=66")
		out, err := cmd.CombinedOutput()
		if err == nil || !strings.Contains(string(out), "AddressSanitizer") {
			fail("AddressSanitizer did not report the planted over-read behind a heap object: %v %s", err, truncate(string(out), 300))
		} else {
			fmt.Println("selftest: planted one-byte over-read behind a 24-byte heap object -> AddressSanitizer report, worker exit", err)
		}
	} else {
		fmt.Println("selftest: no asan build of the harness (optional)")
	}
	if rc == 0 {
		fmt.Println("selftest: ok")
	}
	return rc
}

// selftestAsan reads one byte behind a heap object through an unsafe pointer.
//
//go:noinline
func selftestAsan() int {
	b := make([]byte, 24)
	b[3] = 7
	sinkByte = *(*byte)(unsafe.Add(unsafe.Pointer(&b[0]), 3))
	fmt.Println("in bounds ok, mode=", buildMode)
	sinkByte = *(*byte)(unsafe.Add(unsafe.Pointer(&b[0]), len(b)))
	fmt.Println("over-read went unnoticed")
	return 0
}

var sinkByte byte

// selftestRace shares a counter between two goroutines without
// synchronisation.
func selftestRace() int {
	var wg sync.WaitGroup
	x := 0
	for g := 0; g < 2; g++ {
		wg.Add(1)
		go func() {
			defer wg.Done()
			for i := 0; i < 1000; i++ {
				x++
			}
		}()
	}
	wg.Wait()
	fmt.Print("planted counter=", x, " mode=", buildMode)
	return 0
}
