package main

import "fmt"

func selftest() int {
	rc := 0
	n, err := validateBuildOld()
	fmt.Printf("selftest: three-section writer model reproduces %d archived fixtures, err=%v\n", n, err)
	if err != nil || n < 70 {
		rc = 1
	}
	m, total, first := validateDowngrade()
	fmt.Printf("selftest: 0.5.10 downgrade reproduces %d of %d archived fixtures %s\n", m, total, first)
	if m != total {
		rc = 1
	}
	return rc
}
