package main

import (
	"encoding/base64"
	"encoding/hex"
	"encoding/json"
	"fmt"
	"io/ioutil"
	"os"
	"path/filepath"
	"sort"

	"github.com/openacid/slim/trie"
)

// Golden streams: current-format data persisted by the pinned release (plus the
// fix: commits, none of which changes what the builder writes). Data written
// today must still load tomorrow: a changed reader that only ever sees streams
// written by the changed writer cannot show an on-disk incompatibility.

type goldenFile struct {
	Name      string   `json:"name"`
	Opt       string   `json:"opt"`
	ValueKind string   `json:"value_kind"`
	BytesN    int      `json:"bytes_n,omitempty"`
	KeysHex   []string `json:"keys_hex"`
	Ints      []int64  `json:"ints,omitempty"`
	StrsHex   []string `json:"strs_hex,omitempty"`
	Stream    string   `json:"stream_b64"`
	Version   string   `json:"slim_version"`
	MadeFrom  string   `json:"made_from"`
}

type GoldenCase struct {
	Name   string
	Keys   []string
	Vals   *ValSpec
	Opt    OptSet
	Stream []byte
}

func goldenDir() string { return filepath.Join(verifRoot, "golden") }

func parseOptSet(s string) OptSet {
	// "D1I0L0C1"
	return OptSet{D: s[1] == '1', I: s[3] == '1', L: s[5] == '1', C: s[7] == '1'}
}

var goldenCache []GoldenCase

func loadGolden() []GoldenCase {
	if goldenCache != nil {
		return goldenCache
	}
	files, _ := filepath.Glob(filepath.Join(goldenDir(), "*.json"))
	sort.Strings(files)
	for _, f := range files {
		b, err := ioutil.ReadFile(f)
		if err != nil {
			continue
		}
		var g goldenFile
		if json.Unmarshal(b, &g) != nil {
			continue
		}
		c := GoldenCase{Name: g.Name, Opt: parseOptSet(g.Opt)}
		for _, h := range g.KeysHex {
			k, _ := hex.DecodeString(h)
			c.Keys = append(c.Keys, string(k))
		}
		c.Vals = &ValSpec{Kind: g.ValueKind, N: g.BytesN, Ints: g.Ints}
		for _, h := range g.StrsHex {
			x, _ := hex.DecodeString(h)
			c.Vals.Strs = append(c.Vals.Strs, string(x))
		}
		c.Stream, _ = base64.StdEncoding.DecodeString(g.Stream)
		goldenCache = append(goldenCache, c)
	}
	if goldenCache == nil {
		goldenCache = []GoldenCase{}
	}
	return goldenCache
}

// genGolden writes the golden set from the repository as it is now. Run once on
// the pinned tree; the files are committed and never rewritten by a check.
func genGolden(madeFrom string) int {
	os.MkdirAll(goldenDir(), 0755)
	r := NewRNG(0x601d)
	kinds := []string{"i32", "i16", "i64", "i8", "none", "str16", "rawstr", "bytesN", "structLE", "u16", "defI64", "cpbytes", "int", "u32", "u64", "structBE"}
	shapes := []func() KeySet{
		func() KeySet { return KeySet{"decimal", genDecimal(r, 260)} },
		func() KeySet { return KeySet{"small-alpha", genSmallAlpha(r)} },
		func() KeySet { return KeySet{"repeats", genRepeats(r, 220, 6, 4)} },
		func() KeySet { return KeySet{"uniform", genUniform(r, 500)} },
		func() KeySet { return KeySet{"prefixed", withPrefix(r, genNibbleDense(r, 200), r.Range(1, 40), true)} },
		func() KeySet { return KeySet{"dense-alpha", genDenseAlpha(r, 11, 3, 0)} },
		func() KeySet { return KeySet{"long-tail", genLongTail(r)} },
		func() KeySet { return KeySet{"deep", genDeep(r, 70)} },
	}
	opts := allOptSets()
	n := 0
	for i := 0; i < 48; i++ {
		ks := shapes[i%len(shapes)]()
		kind := kinds[i%len(kinds)]
		o := opts[(i*7+i/16)%16]
		vals := genVals(r, kind, len(ks.Keys), i%5)
		st, err := trie.NewSlimTrie(vals.Encoder(), ks.Keys, vals.Slice(), o.Opt())
		if err != nil {
			fmt.Println("skip", i, err)
			continue
		}
		stream, err := st.Marshal()
		if err != nil {
			continue
		}
		g := goldenFile{Name: fmt.Sprintf("g%02d-%s-%s-%s", i, ks.Family, kind, o.String()), Opt: o.String(), ValueKind: kind, BytesN: vals.N,
			Ints: vals.Ints, Stream: base64.StdEncoding.EncodeToString(stream), Version: st.GetVersion(), MadeFrom: madeFrom}
		for _, k := range ks.Keys {
			g.KeysHex = append(g.KeysHex, hex.EncodeToString([]byte(k)))
		}
		for _, s := range vals.Strs {
			g.StrsHex = append(g.StrsHex, hex.EncodeToString([]byte(s)))
		}
		b, _ := json.Marshal(g)
		ioutil.WriteFile(filepath.Join(goldenDir(), g.Name+".json"), b, 0644)
		n++
	}
	fmt.Println("golden streams written:", n)
	return 0
}

// genGolden2 adds a second, directed batch (h000...): every combination of
// five key shapes chosen for where leaf tails sit (only on the first leaves,
// nowhere, only on the last leaves, everywhere), four value kinds (none, fixed,
// two variable-width ones) and five option sets. What the builder writes for
// these - presence bitmaps shorter than the leaf count, absent optional
// sections, zero counters - is part of the persisted format whether or not it
// was intended.
func genGolden2(madeFrom string) int {
	os.MkdirAll(goldenDir(), 0755)
	r := NewRNG(0x601d2)
	dense := func() []string { // 256 two-byte keys, fully branching: no leaf has a tail
		var ks []string
		for a := 0; a < 16; a++ {
			for b := 0; b < 16; b++ {
				ks = append(ks, string([]byte{byte(0x20 + a), byte(0x40 + b*3)}))
			}
		}
		return ks
	}
	shapes := []struct {
		name string
		gen  func() []string
	}{
		{"tails-early", func() []string {
			return sortUniq(append(dense(), "\x01"+string(r.Bytes(9)), "\x02long-tail-here", "\x03\xff\xfe tail", "\x04t"))
		}},
		{"no-tails", func() []string {
			var ks []string
			for b := 0; b < 200; b++ {
				ks = append(ks, string([]byte{byte(b + 20)}))
			}
			return ks
		}},
		{"tails-late", func() []string {
			return sortUniq(append(dense(), "\xf1"+string(r.Bytes(9)), "\xf2long-tail-here", "\xf3\xff\xfe tail", "\xf4t"))
		}},
		{"uniform", func() []string { return genUniform(r, 300) }},
		{"decimal", func() []string { return genDecimal(r, 300) }},
	}
	kinds := []string{"none", "i32", "str16", "rawstr"}
	opts := []OptSet{{D: true, L: true}, {D: true, C: true}, {I: true, L: true}, {D: true}, {D: true, I: true}}
	n := 0
	for si, sh := range shapes {
		for ki, kind := range kinds {
			for oi, o := range opts {
				keys := sh.gen()
				vals := genVals(r, kind, len(keys), []int{0, 1, 4}[(si+ki+oi)%3])
				st, err := trie.NewSlimTrie(vals.Encoder(), keys, vals.Slice(), o.Opt())
				if err != nil {
					fmt.Println("skip", sh.name, kind, o, err)
					continue
				}
				stream, err := st.Marshal()
				if err != nil {
					continue
				}
				g := goldenFile{Name: fmt.Sprintf("h%03d-%s-%s-%s", n, sh.name, kind, o.String()), Opt: o.String(), ValueKind: kind, BytesN: vals.N,
					Ints: vals.Ints, Stream: base64.StdEncoding.EncodeToString(stream), Version: st.GetVersion(), MadeFrom: madeFrom}
				for _, k := range keys {
					g.KeysHex = append(g.KeysHex, hex.EncodeToString([]byte(k)))
				}
				for _, s := range vals.Strs {
					g.StrsHex = append(g.StrsHex, hex.EncodeToString([]byte(s)))
				}
				b, _ := json.Marshal(g)
				ioutil.WriteFile(filepath.Join(goldenDir(), g.Name+".json"), b, 0644)
				n++
			}
		}
	}
	fmt.Println("golden streams written (second batch):", n)
	return 0
}
