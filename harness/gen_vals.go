package main

import (
	"bytes"
	"encoding/binary"
	"fmt"
	"math"
	"reflect"

	"github.com/openacid/slim/encode"
)

// ValSpec is a value list in a harness-neutral form plus the encoder that is
// handed to slim. Every value is an int64 seed (integers), a string
// (String16 / Bytes) or derived from an int64 (struct kinds).
type ValSpec struct {
	Kind string // none i8 i16 i32 i64 u16 u32 u64 int str16 bytesN structLE structBE
	Ints []int64
	Strs []string
	N    int // Bytes size
	// NilEmpty selects the RawStr variant that encodes "" as a nil slice.
	NilEmpty bool
}

// TStruct is the fixed-size struct used with TypeEncoder.
type TStruct struct {
	A uint16
	B int32
	C [3]uint8
	D int64
}

func structOf(v int64) TStruct {
	u := uint64(v)
	return TStruct{A: uint16(u), B: int32(u >> 7), C: [3]uint8{uint8(u >> 3), uint8(u >> 11), uint8(u >> 40)}, D: v * 0x100000001b3}
}

// RawStr is a user-defined variable-width encoder: a string is stored as its
// bytes, so the empty string has a zero-length encoding (an "absent" leaf in
// slim's leaf array). The Encoder interface is public API; slim's leaf array
// keeps element boundaries itself, so such an encoder is legitimate.
type RawStr struct {
	// NilEmpty: the empty string is encoded as a nil slice (also a valid
	// zero-length encoding) instead of an empty non-nil one.
	NilEmpty bool
}

func (e RawStr) Encode(d interface{}) []byte {
	if e.NilEmpty && d.(string) == "" {
		return nil
	}
	return []byte(d.(string))
}
func (RawStr) Decode(b []byte) (int, interface{}) { return len(b), string(b) }
func (RawStr) GetSize(d interface{}) int          { return len(d.(string)) }
func (RawStr) GetEncodedSize(b []byte) int        { return len(b) }

// defOff is a defined (named) scalar type: values of such types go through
// TypeEncoder and must come back with the same dynamic type.
type defOff int64

// CopyBytes is a user-defined encoder whose Decode hands out a fresh, mutable
// copy (a 1-byte length prefix followed by the bytes): whatever the caller
// does to a returned value afterwards must not reach the trie or later answers.
type CopyBytes struct{}

func (CopyBytes) Encode(d interface{}) []byte {
	b := d.([]byte)
	return append([]byte{byte(len(b))}, b...)
}
func (CopyBytes) Decode(b []byte) (int, interface{}) {
	n := int(b[0])
	return 1 + n, append([]byte{}, b[1:1+n]...)
}
func (CopyBytes) GetSize(d interface{}) int   { return 1 + len(d.([]byte)) }
func (CopyBytes) GetEncodedSize(b []byte) int { return 1 + int(b[0]) }

var intKinds = []string{"i8", "i16", "i32", "i64", "u16", "u32", "u64", "int"}

func (v *ValSpec) IsNone() bool { return v == nil || v.Kind == "none" }

func (v *ValSpec) Len() int {
	switch v.Kind {
	case "none":
		return 0
	case "str16", "bytesN", "rawstr", "cpbytes", "optbytes":
		return len(v.Strs)
	}
	return len(v.Ints)
}

// Encoder returns the slim encoder to pass to NewSlimTrie.
func (v *ValSpec) Encoder() encode.Encoder {
	switch v.Kind {
	case "none":
		// the encoder is ignored when values are nil; alternate to show that
		return encode.I32{}
	case "i8":
		return encode.I8{}
	case "i16":
		return encode.I16{}
	case "i32":
		return encode.I32{}
	case "i64":
		return encode.I64{}
	case "u16":
		return encode.U16{}
	case "u32":
		return encode.U32{}
	case "u64":
		return encode.U64{}
	case "int":
		return encode.Int{}
	case "str16":
		return encode.String16{}
	case "rawstr":
		return RawStr{NilEmpty: v.NilEmpty}
	case "cpbytes":
		return CopyBytes{}
	case "optbytes":
		return OptBytes{}
	case "bytesN":
		return encode.Bytes{Size: v.N}
	case "defI64":
		e, err := encode.NewTypeEncoderEndian(defOff(0), binary.LittleEndian)
		if err != nil {
			panic(err)
		}
		return e
	case "f64":
		e, err := encode.NewTypeEncoderEndian(float64(0), binary.LittleEndian)
		if err != nil {
			panic(err)
		}
		return e
	case "structLE":
		e, err := encode.NewTypeEncoderEndian(TStruct{}, binary.LittleEndian)
		if err != nil {
			panic(err)
		}
		return e
	case "structBE":
		e, err := encode.NewTypeEncoderEndian(TStruct{}, binary.BigEndian)
		if err != nil {
			panic(err)
		}
		return e
	}
	panic("unknown kind " + v.Kind)
}

// Slice returns the typed slice handed to NewSlimTrie (nil for "none").
func (v *ValSpec) Slice() interface{} {
	n := v.Len()
	switch v.Kind {
	case "none":
		return nil
	case "i8":
		s := make([]int8, n)
		for i := range s {
			s[i] = int8(v.Ints[i])
		}
		return s
	case "i16":
		s := make([]int16, n)
		for i := range s {
			s[i] = int16(v.Ints[i])
		}
		return s
	case "i32":
		s := make([]int32, n)
		for i := range s {
			s[i] = int32(v.Ints[i])
		}
		return s
	case "i64":
		s := make([]int64, n)
		for i := range s {
			s[i] = v.Ints[i]
		}
		return s
	case "defI64":
		s := make([]defOff, n)
		for i := range s {
			s[i] = defOff(v.Ints[i])
		}
		return s
	case "f64":
		s := make([]float64, n)
		for i := range s {
			s[i] = math.Float64frombits(uint64(v.Ints[i]))
		}
		return s
	case "u16":
		s := make([]uint16, n)
		for i := range s {
			s[i] = uint16(v.Ints[i])
		}
		return s
	case "u32":
		s := make([]uint32, n)
		for i := range s {
			s[i] = uint32(v.Ints[i])
		}
		return s
	case "u64":
		s := make([]uint64, n)
		for i := range s {
			s[i] = uint64(v.Ints[i])
		}
		return s
	case "int":
		s := make([]int, n)
		for i := range s {
			s[i] = int(v.Ints[i])
		}
		return s
	case "str16", "rawstr":
		s := make([]string, n)
		copy(s, v.Strs)
		return s
	case "bytesN", "cpbytes":
		s := make([][]byte, n)
		for i := range s {
			s[i] = []byte(v.Strs[i])
		}
		return s
	case "optbytes":
		s := make([][]byte, n)
		for i := range s {
			if v.Strs[i] != optNil {
				s[i] = []byte(v.Strs[i])
				if s[i] == nil {
					s[i] = []byte{}
				}
			}
		}
		return s
	case "structLE", "structBE":
		s := make([]TStruct, n)
		for i := range s {
			s[i] = structOf(v.Ints[i])
		}
		return s
	}
	panic("unknown kind " + v.Kind)
}

// FixedSize reports whether every value encodes to the same number of bytes
// (what the historical layouts require).
func (v *ValSpec) FixedSize() bool {
	switch v.Kind {
	case "none", "str16", "rawstr", "cpbytes", "optbytes":
		return false
	}
	return true
}

// Prefix returns a ValSpec holding the first n values (n <= Len()).
func (v *ValSpec) Prefix(n int) *ValSpec {
	o := &ValSpec{Kind: v.Kind, N: v.N, NilEmpty: v.NilEmpty}
	if v.Ints != nil {
		o.Ints = v.Ints[:n]
	}
	if v.Strs != nil {
		o.Strs = v.Strs[:n]
	}
	return o
}

// At returns the typed value i as slim is expected to hand it back.
func (v *ValSpec) At(i int) interface{} {
	switch v.Kind {
	case "none":
		return nil
	case "i8":
		return int8(v.Ints[i])
	case "i16":
		return int16(v.Ints[i])
	case "i32":
		return int32(v.Ints[i])
	case "i64":
		return v.Ints[i]
	case "defI64":
		return defOff(v.Ints[i])
	case "f64":
		return math.Float64frombits(uint64(v.Ints[i]))
	case "u16":
		return uint16(v.Ints[i])
	case "u32":
		return uint32(v.Ints[i])
	case "u64":
		return uint64(v.Ints[i])
	case "int":
		return int(v.Ints[i])
	case "str16", "rawstr":
		return v.Strs[i]
	case "bytesN", "cpbytes":
		return []byte(v.Strs[i])
	case "optbytes":
		if v.Strs[i] == optNil {
			return []byte(nil)
		}
		return []byte(v.Strs[i])
	case "structLE", "structBE":
		return structOf(v.Ints[i])
	}
	panic("unknown kind " + v.Kind)
}

// RefEnc is the reference (independent) encoding of value i: the on-disk
// value format as the property states it.
func (v *ValSpec) RefEnc(i int) []byte {
	le := func(x uint64, n int) []byte {
		b := make([]byte, n)
		for j := 0; j < n; j++ {
			b[j] = byte(x >> (8 * uint(j)))
		}
		return b
	}
	switch v.Kind {
	case "none":
		return nil
	case "i8":
		return le(uint64(v.Ints[i]), 1)
	case "i16", "u16":
		return le(uint64(v.Ints[i]), 2)
	case "i32", "u32":
		return le(uint64(v.Ints[i]), 4)
	case "i64", "u64", "int", "defI64", "f64":
		return le(uint64(v.Ints[i]), 8)
	case "str16":
		s := v.Strs[i]
		return append([]byte{byte(len(s) >> 8), byte(len(s))}, s...)
	case "bytesN", "rawstr":
		return []byte(v.Strs[i])
	case "cpbytes":
		return append([]byte{byte(len(v.Strs[i]))}, v.Strs[i]...)
	case "optbytes":
		if v.Strs[i] == optNil {
			return []byte{0xff, 0xff}
		}
		return append([]byte{byte(len(v.Strs[i]) >> 8), byte(len(v.Strs[i]))}, v.Strs[i]...)
	case "structLE", "structBE":
		return refStruct(structOf(v.Ints[i]), v.Kind == "structBE")
	}
	panic("unknown kind " + v.Kind)
}

func refStruct(s TStruct, be bool) []byte {
	put := func(x uint64, n int) []byte {
		b := make([]byte, n)
		for j := 0; j < n; j++ {
			sh := uint(8 * j)
			if be {
				sh = uint(8 * (n - 1 - j))
			}
			b[j] = byte(x >> sh)
		}
		return b
	}
	var out []byte
	out = append(out, put(uint64(s.A), 2)...)
	out = append(out, put(uint64(uint32(s.B)), 4)...)
	out = append(out, s.C[0], s.C[1], s.C[2])
	out = append(out, put(uint64(s.D), 8)...)
	return out
}

// Same reports whether the value handed back by slim equals value i.
func (v *ValSpec) Same(got interface{}, i int) bool {
	return sameVal(got, v.At(i))
}

func sameVal(got, want interface{}) bool {
	if wb, ok := want.([]byte); ok {
		gb, ok2 := got.([]byte)
		if !ok2 {
			// a zero-length value may come back as nil
			return got == nil && len(wb) == 0
		}
		return bytes.Equal(gb, wb)
	}
	if wf, ok := want.(float64); ok {
		// the value that was supplied, not one that compares equal to it: +0 and
		// -0 are == and are different values with different encodings
		gf, ok2 := got.(float64)
		return ok2 && math.Float64bits(gf) == math.Float64bits(wf)
	}
	return reflect.DeepEqual(got, want)
}

// EqualAdj reports whether values i-1 and i encode identically.
func (v *ValSpec) EqualAdj(i int) bool {
	return bytes.Equal(v.RefEnc(i-1), v.RefEnc(i))
}

func (v *ValSpec) Describe(max int) interface{} {
	switch v.Kind {
	case "none":
		return nil
	case "str16", "bytesN", "rawstr", "cpbytes", "optbytes":
		out := []string{}
		for i, s := range v.Strs {
			if i >= max {
				out = append(out, "...")
				break
			}
			out = append(out, fmt.Sprintf("%x", s))
		}
		return out
	}
	out := []int64{}
	for i, s := range v.Ints {
		if i >= max {
			break
		}
		out = append(out, s)
	}
	return out
}

// ---- generation -----------------------------------------------------------

// runPattern returns run ids (non-decreasing run index per position) for n
// positions. style: 0 distinct, 1 geometric runs, 2 two-valued random,
// 3 one run, 4 long runs.
func runPattern(r *RNG, n int, style int) []int {
	ids := make([]int, n)
	cur := 0
	switch style {
	case 0:
		for i := range ids {
			ids[i] = i
		}
	case 1:
		for i := range ids {
			if i > 0 && !r.Chance(1, 2) {
				cur++
			}
			ids[i] = cur
		}
	case 2:
		// two-valued: run id changes when the coin flips; equal non-adjacent values possible
		prev := 0
		for i := range ids {
			c := r.Intn(2)
			if i > 0 && c != prev {
				cur++
			}
			prev = c
			ids[i] = cur
		}
	case 3:
		// all equal
	case 4:
		for i := range ids {
			if i > 0 && r.Chance(1, 12) {
				cur++
			}
			ids[i] = cur
		}
	}
	return ids
}

func extremeInt(r *RNG, kind string) int64 {
	var bitsN uint
	signed := true
	switch kind {
	case "i8":
		bitsN = 8
	case "i16":
		bitsN = 16
	case "u16":
		bitsN, signed = 16, false
	case "i32":
		bitsN = 32
	case "u32":
		bitsN, signed = 32, false
	default:
		bitsN = 64
		if kind == "u64" {
			signed = false
		}
	}
	switch r.Intn(8) {
	case 0:
		return 0
	case 1:
		return -1 // all ones
	case 2:
		if signed {
			return -(int64(1) << (bitsN - 1)) // min
		}
		return 0
	case 3:
		if signed {
			return int64(1)<<(bitsN-1) - 1 // max
		}
		return -1
	case 4:
		return int64(1) << uint(r.Intn(int(bitsN)))
	default:
		return int64(r.U64())
	}
}

// genVals builds n values of the given kind following a run pattern: equal run
// id <=> equal value for adjacent positions (values of different runs that are
// adjacent are forced to differ; non-adjacent runs may coincide).
func genVals(r *RNG, kind string, n int, style int) *ValSpec {
	v := &ValSpec{Kind: kind}
	if kind == "none" {
		return v
	}
	ids := runPattern(r, n, style)
	switch kind {
	case "str16", "rawstr", "cpbytes", "optbytes":
		v.Strs = make([]string, n)
		var cur string
		for i := 0; i < n; i++ {
			if i == 0 || ids[i] != ids[i-1] {
				for tries := 0; ; tries++ {
					l := 0
					switch r.Intn(6) {
					case 0:
						l = 0
					case 1:
						l = 1
					case 2:
						l = r.Range(2, 5)
					case 3:
						l = r.Range(6, 40)
					case 4:
						l = r.Range(0, 3)
					case 5:
						if r.Chance(1, 20) {
							l = r.Range(200, 700)
						} else {
							l = r.Range(0, 9)
						}
					}
					s := string(r.Bytes(l))
					if kind == "optbytes" && r.Chance(1, 4) {
						s = optNil // an absent (nil) element
					}
					if i == 0 || s != cur || tries > 50 {
						if i > 0 && s == cur {
							s += "x"
						}
						cur = s
						break
					}
				}
			}
			v.Strs[i] = cur
		}
		if kind == "cpbytes" {
			for i, x := range v.Strs {
				if len(x) > 255 {
					v.Strs[i] = x[:255]
				}
			}
		}
		if kind == "rawstr" {
			v.NilEmpty = r.Bool()
			// all-empty encodings degenerate to the no-values representation
			// (hits carry nil, as with encode.Dummy); keep one non-empty value
			all := true
			for _, s := range v.Strs {
				if s != "" {
					all = false
				}
			}
			if all && n > 0 {
				v.Strs[r.Intn(n)] = "z"
			}
		}
	case "bytesN":
		v.N = r.Range(1, 9)
		if r.Chance(1, 10) {
			v.N = r.Range(10, 40)
		}
		v.Strs = make([]string, n)
		var cur string
		for i := 0; i < n; i++ {
			if i == 0 || ids[i] != ids[i-1] {
				for {
					s := string(r.Bytes(v.N))
					if i == 0 || s != cur {
						cur = s
						break
					}
				}
			}
			v.Strs[i] = cur
		}
	default:
		v.Ints = make([]int64, n)
		var cur int64
		small := r.Chance(1, 3) // sometimes the readable 0..n-1 style
		mod := int64(1) << 40
		if small && r.Chance(1, 2) {
			// few distinct values: equal values recur in non-adjacent runs
			mod = int64(r.Range(2, 4))
		}
		for i := 0; i < n; i++ {
			if i == 0 || ids[i] != ids[i-1] {
				for {
					var x int64
					if kind == "f64" {
						x = floatBits(r)
					} else if small {
						x = int64(ids[i]) % mod
					} else {
						x = extremeInt(r, kind)
					}
					if i == 0 || !sameEnc(kind, x, cur) {
						cur = x
						break
					}
					small = false
				}
			}
			v.Ints[i] = cur
		}
	}
	return v
}

// floatBits: float64 values as bit patterns, heavy on the two zeros (equal
// under ==, different encodings), no NaN.
func floatBits(r *RNG) int64 {
	switch r.Intn(8) {
	case 0, 1, 2:
		return 0 // +0
	case 3, 4:
		return math.MinInt64 // -0
	case 5:
		return int64(math.Float64bits([]float64{1, -1, 1.5, -1.5, math.Inf(1), math.Inf(-1), math.MaxFloat64, math.SmallestNonzeroFloat64}[r.Intn(8)]))
	case 6:
		return int64(math.Float64bits(float64(r.Intn(1000)) / 8))
	}
	return int64(math.Float64bits(-float64(r.Intn(1000000)) / 1024))
}

func sameEnc(kind string, a, b int64) bool {
	switch kind {
	case "i8":
		return int8(a) == int8(b)
	case "i16", "u16":
		return uint16(a) == uint16(b)
	case "i32", "u32":
		return uint32(a) == uint32(b)
	case "structLE", "structBE":
		return structOf(a) == structOf(b)
	}
	return a == b
}

var allValKinds = []string{"none", "i8", "i16", "i32", "i64", "u16", "u32", "u64", "int", "str16", "bytesN", "structLE", "structBE", "rawstr", "defI64", "cpbytes", "f64", "optbytes"}

// OptBytes: a user-defined encoder for optional byte strings. The element type
// is []byte and nil is a value of its own ("no value recorded"), encoded as the
// marker ff ff; everything else as a big-endian 16-bit length and the bytes.
type OptBytes struct{}

const optNil = "\x00\x00<nil element>\x00"

func (OptBytes) Encode(d interface{}) []byte {
	b := d.([]byte)
	if b == nil {
		return []byte{0xff, 0xff}
	}
	return append([]byte{byte(len(b) >> 8), byte(len(b))}, b...)
}
func (OptBytes) Decode(b []byte) (int, interface{}) {
	if b[0] == 0xff && b[1] == 0xff {
		return 2, []byte(nil)
	}
	n := int(b[0])<<8 | int(b[1])
	return 2 + n, append([]byte{}, b[2:2+n]...)
}
func (OptBytes) GetSize(d interface{}) int {
	if d.([]byte) == nil {
		return 2
	}
	return 2 + len(d.([]byte))
}
func (OptBytes) GetEncodedSize(b []byte) int {
	if b[0] == 0xff && b[1] == 0xff {
		return 2
	}
	return 2 + (int(b[0])<<8 | int(b[1]))
}

// UserLE: a user-defined fixed-width little-endian integer encoder (the bytes
// encode.I8/I16/I32/I64 write) whose Decode returns a defined type.
type UserLE struct{ Kind string }

type usrI8 int8
type usrI16 int16
type usrI32 int32
type usrI64 int64

func (u UserLE) size() int {
	switch u.Kind {
	case "i8":
		return 1
	case "i16":
		return 2
	case "i32":
		return 4
	}
	return 8
}
func (u UserLE) Encode(d interface{}) []byte {
	x := uint64(reflect.ValueOf(d).Int())
	b := make([]byte, u.size())
	for i := range b {
		b[i] = byte(x >> (8 * uint(i)))
	}
	return b
}
func (u UserLE) Decode(b []byte) (int, interface{}) {
	var x uint64
	for i := 0; i < u.size(); i++ {
		x |= uint64(b[i]) << (8 * uint(i))
	}
	switch u.Kind {
	case "i8":
		return 1, usrI8(int8(x))
	case "i16":
		return 2, usrI16(int16(x))
	case "i32":
		return 4, usrI32(int32(x))
	}
	return 8, usrI64(int64(x))
}
func (u UserLE) GetSize(d interface{}) int   { return u.size() }
func (u UserLE) GetEncodedSize(b []byte) int { return u.size() }

// PassBytes: a user-defined variable-size encoder that hands the caller's
// bytes through unchanged (C20: the builder must copy them).
type PassBytes struct{}

func (PassBytes) Encode(d interface{}) []byte        { return d.([]byte) }
func (PassBytes) Decode(b []byte) (int, interface{}) { return len(b), b }
func (PassBytes) GetSize(d interface{}) int          { return len(d.([]byte)) }
func (PassBytes) GetEncodedSize(b []byte) int        { return len(b) }

// pickKind chooses a value kind; n is the number of keys (i8 cannot give n
// distinct values beyond 256 but duplicates are legitimate input anyway).
func pickKind(r *RNG) string {
	switch r.Intn(10) {
	case 0:
		return "none"
	case 1, 2:
		return "i32"
	case 3:
		return "str16"
	case 4:
		return "bytesN"
	case 5:
		return "rawstr"
	}
	return allValKinds[r.Intn(len(allValKinds))]
}
