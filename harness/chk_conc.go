package main

import (
	"bytes"
	"encoding/hex"
	"fmt"
	"runtime"
	"sort"
	"strconv"
	"sync"
	"time"

	"github.com/golang/protobuf/proto"
	"github.com/openacid/slim/trie"
)

// C11 — a SlimTrie is safely shareable between concurrent readers.

type concOp struct {
	api string
	run func() string
}

var concAPIs = []string{"Get", "GetID", "RangeGet", "Search", "GetI32", "ScanFrom", "ScanFromTo", "NewIter", "Stat", "String", "Marshal", "proto.Size"}

func apiIndex(a string) int {
	for i, x := range concAPIs {
		if x == a {
			return i
		}
	}
	return -1
}

// buildConcOps returns the fixed operation list against st.
func buildConcOps(st *trie.SlimTrie, qs []string, complete bool, i32 bool, nString int) []concOp {
	var ops []concOp
	add := func(api string, f func() string) { ops = append(ops, concOp{api, f}) }
	for i, q := range qs {
		q := q
		switch i % 4 {
		case 0:
			add("Get", func() string { v, f := st.Get(q); return qshow(v) + qbool(f) })
		case 1:
			add("GetID", func() string { return strconv.Itoa(int(st.GetID(q))) })
		case 2:
			add("RangeGet", func() string { v, f := st.RangeGet(q); return qshow(v) + qbool(f) })
		case 3:
			add("Search", func() string { l, e, r := st.Search(q); return qshow(l) + qshow(e) + qshow(r) })
		}
		if i32 && i%5 == 0 {
			add("GetI32", func() string { v, f := st.GetI32(q); return strconv.Itoa(int(v)) + qbool(f) })
		}
		if complete && i%6 == 0 {
			incl := i%12 == 0
			add("ScanFrom", func() string {
				var b bytes.Buffer
				n := 0
				st.ScanFrom(q, incl, true, func(k, v []byte) bool {
					qkv(&b, k, v)
					n++
					return n < 40
				})
				return b.String()
			})
			end := qs[(i*7+3)%len(qs)]
			add("ScanFromTo", func() string {
				var b bytes.Buffer
				n := 0
				st.ScanFromTo(q, !incl, end, incl, false, func(k, v []byte) bool {
					b.WriteString(hex.EncodeToString(k))
					b.WriteByte(',')
					n++
					return n < 40
				})
				return b.String()
			})
			add("NewIter", func() string {
				var b bytes.Buffer
				nxt := st.NewIter(q, incl, i%24 == 0)
				for t := 0; t < 40; t++ {
					k, v := nxt()
					if k == nil {
						b.WriteString("END")
						break
					}
					qkv(&b, k, v)
					if t%8 == 7 {
						runtime.Gosched()
					}
				}
				return b.String()
			})
		}
	}
	if !complete && len(qs) > 0 {
		// on a trie that does not store complete keys every scan entry point
		// refuses (panics); the caller recovers and goes on reading - a refusal
		// is a read like any other and leaves the shared instance as it was
		for t := 0; t < 3; t++ {
			q := qs[(t*31+5)%len(qs)]
			add("ScanFrom", func() string {
				n := 0
				st.ScanFrom(q, true, true, func(k, v []byte) bool { n++; return n < 5 })
				return "yielded " + strconv.Itoa(n)
			})
			add("NewIter", func() string {
				nxt := st.NewIter(q, true, false)
				k, _ := nxt()
				return "first " + hex.EncodeToString(k)
			})
			add("ScanFromTo", func() string {
				n := 0
				st.ScanFromTo("", true, q, true, false, func(k, v []byte) bool { n++; return n < 5 })
				return "yielded " + strconv.Itoa(n)
			})
		}
	}
	if complete && len(qs) > 0 {
		// a callback that gives up by panicking (recovered by the caller)
		for t := 0; t < 3; t++ {
			q := qs[(t*17+3)%len(qs)]
			add("ScanFrom", func() (res string) {
				var b bytes.Buffer
				n := 0
				defer func() {
					if p := recover(); p != nil {
						res = b.String() + "callback-panicked"
					}
				}()
				st.ScanFrom(q, true, true, func(k, v []byte) bool {
					qkv(&b, k, v)
					n++
					if n == 3 {
						panic("callback gives up")
					}
					return true
				})
				return b.String()
			})
		}
	}
	if complete {
		for t := 0; t < 4; t++ {
			withVal := t%2 == 0
			add("ScanFrom", func() string {
				var b bytes.Buffer
				n := 0
				st.ScanFrom("", true, withVal, func(k, v []byte) bool {
					qkv(&b, k, v)
					n++
					return n < 200
				})
				return b.String()
			})
			add("NewIter", func() string {
				var b bytes.Buffer
				nxt := st.NewIter("", true, withVal)
				for i := 0; i < 200; i++ {
					k, v := nxt()
					if k == nil {
						break
					}
					qkv(&b, k, v)
				}
				return b.String()
			})
		}
	}
	for t := 0; t < 6; t++ {
		add("Stat", func() string { return qstat(st.Stat()) })
		add("Marshal", func() string {
			b, err := st.Marshal()
			return strconv.Itoa(len(b)) + " " + hex.EncodeToString(sha8(b)) + " " + qbool(err == nil)
		})
		add("proto.Size", func() string { return strconv.Itoa(proto.Size(st)) })
		if t < nString {
			add("String", func() string {
				s := st.String()
				return strconv.Itoa(len(s)) + " " + hex.EncodeToString(sha8([]byte(s)))
			})
		}
	}
	return ops
}

// The operation closures avoid fmt: its printer objects travel between
// goroutines through a sync.Pool, and a pooled object handed from one goroutine
// to another is a happens-before edge for the race detector - synchronisation
// that the program under observation does not have.
func qshow(v interface{}) string {
	switch x := v.(type) {
	case nil:
		return "<nil>"
	case int8:
		return "i8:" + strconv.FormatInt(int64(x), 10)
	case int16:
		return "i16:" + strconv.FormatInt(int64(x), 10)
	case int32:
		return "i32:" + strconv.FormatInt(int64(x), 10)
	case int64:
		return "i64:" + strconv.FormatInt(x, 10)
	case int:
		return "int:" + strconv.FormatInt(int64(x), 10)
	case uint16:
		return "u16:" + strconv.FormatUint(uint64(x), 10)
	case uint32:
		return "u32:" + strconv.FormatUint(uint64(x), 10)
	case uint64:
		return "u64:" + strconv.FormatUint(x, 10)
	case string:
		return "str:" + hex.EncodeToString([]byte(x))
	case []byte:
		return "bytes:" + hex.EncodeToString(x)
	case TStruct:
		return "ts:" + hex.EncodeToString(refStruct(x, false))
	}
	return show(v)
}

func qbool(b bool) string {
	if b {
		return "true"
	}
	return "false"
}

func qkv(b *bytes.Buffer, k, v []byte) {
	b.WriteString(hex.EncodeToString(k))
	b.WriteByte('=')
	b.WriteString(hex.EncodeToString(v))
	b.WriteByte(',')
}

func qstat(s *trie.Stat) string {
	var b bytes.Buffer
	b.WriteString(strconv.Itoa(int(s.LevelCnt)))
	b.WriteByte('/')
	b.WriteString(strconv.Itoa(int(s.KeyCnt)))
	b.WriteByte('/')
	b.WriteString(strconv.Itoa(int(s.NodeCnt)))
	for _, l := range s.Levels {
		b.WriteByte(' ')
		b.WriteString(strconv.Itoa(int(l.Total)))
		b.WriteByte(',')
		b.WriteString(strconv.Itoa(int(l.Inner)))
		b.WriteByte(',')
		b.WriteString(strconv.Itoa(int(l.Leaf)))
	}
	return b.String()
}

func sha8(b []byte) []byte {
	h := hashStr(string(b))
	return []byte{byte(h), byte(h >> 8), byte(h >> 16), byte(h >> 24), byte(h >> 32), byte(h >> 40)}
}

// barrier is a reusable rendezvous for n goroutines.
type barrier struct {
	mu    sync.Mutex
	cond  *sync.Cond
	n     int
	count int
	gen   int
}

func newBarrier(n int) *barrier {
	b := &barrier{n: n}
	b.cond = sync.NewCond(&b.mu)
	return b
}

func (b *barrier) wait() {
	b.mu.Lock()
	gen := b.gen
	b.count++
	if b.count == b.n {
		b.count = 0
		b.gen++
		b.cond.Broadcast()
	} else {
		for gen == b.gen {
			b.cond.Wait()
		}
	}
	b.mu.Unlock()
}

type concEvent struct {
	api        int
	call, ret  int64
	inflightAt int32
}

var concGs = []int{2, 4, 8, 16, 32}
var concProcs = []int{1, 2, 16}

func c11NumInst(tier string) int {
	if tier == "thorough" {
		return 120
	}
	return 15
}

func c11NumCases(tier string) int { return c11NumInst(tier) * len(concGs) }

func runC11(ctx *Ctx, idx int) {
	instNo := idx / len(concGs)
	G := concGs[idx%len(concGs)]
	procs := concProcs[(idx/len(concGs)+idx)%len(concProcs)]
	r := NewRNG(caseSeed(ctx.Seed, "C11", ctx.Tier, instNo))
	// ---- the shared instance
	kindNo := instNo % 5
	var ks KeySet
	fam := r.Intn(5)
	if instNo%15 == 5 {
		fam = 5 // keys longer than any fixed-size scratch buffer is likely to be
	}
	if instNo%15 == 10 {
		fam = 6 // thousands of values: whatever takes a special path for big tries
		if G != 4 {
			fam = 1 // (once per instance; the other goroutine counts get a small trie)
		}
	}
	if instNo%15 == 0 {
		fam = 7 // the keys part ways in the middle of a byte, leaves directly below the root
	}
	switch fam {
	case 7:
		// a1 a2 a3 / id:0 .. id:9: a common prefix of an odd number of half-bytes,
		// a root with up to 16 children, several of them leaves without a tail,
		// some with longer keys below
		p := string(r.Bytes(1 + r.Intn(3)))
		h := byte(r.Intn(16)) << 4
		var k []string
		for x := 0; x < 16; x++ {
			if r.Chance(2, 3) {
				k = append(k, p+string([]byte{h | byte(x)}))
				if r.Chance(1, 3) {
					k = append(k, p+string([]byte{h | byte(x)})+string(r.Bytes(r.Range(1, 4))))
				}
			}
		}
		k = append(k, p+string([]byte{h | 1}), p+string([]byte{h | 2}), p+string([]byte{h | 3}))
		ks = KeySet{"odd-halfbyte-root-prefix", sortUniq(k)}
	case 5:
		k := genSmallAlpha(r)
		for len(k) < 12 {
			k = sortUniq(append(k, genSmallAlpha(r)...))
		}
		ks = KeySet{"long-keys", withPrefix(r, k, r.Range(70, 260), true)}
	case 6:
		var k []string
		for len(k) < 4500 {
			k = sortUniq(append(k, genUniform(r, 3000)...))
		}
		ks = KeySet{"big-5000", k}
	case 4:
		// lopsided: shallow where a scan starts, much deeper further on (the
		// scan stack has to grow while iterating)
		k := []string{"a", "a0", "a1"}
		c := string([]byte{byte('b' + r.Intn(20))})
		for i := 1; i <= r.Range(30, 90); i++ {
			k = append(k, rep(c, i))
		}
		k = append(k, "z", "zz")
		ks = KeySet{"lopsided", sortUniq(k)}
	case 0:
		ks = KeySet{"small-alpha", genSmallAlpha(r)}
	case 1:
		ks = KeySet{"uniform", genUniform(r, 500)}
	case 2:
		ks = KeySet{"repeats", genRepeats(r, r.Range(40, 200), r.Range(2, 8), 4)}
	default:
		ks = genKeySet(r, 2)
	}
	if len(ks.Keys) < 2 {
		ks = KeySet{"repo-8", directedKeySets()[9].Keys}
	}
	keys := ks.Keys
	n := len(keys)
	// value kinds rotate: the encoder is part of the shared instance (a
	// TypeEncoder or any user encoder is called concurrently by every reader)
	vkind := []string{"i32", "structLE", "str16", "i32", "structBE", "i64", "bytesN", "none", "rawstr", "u16"}[(instNo/5+instNo)%10]
	if kindNo >= 3 && (vkind == "str16" || vkind == "none" || vkind == "rawstr") {
		vkind = "structLE" // the old layouts need fixed-size values
	}
	if ks.Family == "big-5000" {
		vkind = "i32"
	}
	vals := genVals(r, vkind, n, r.Intn(3))
	if ks.Family == "big-5000" {
		vals = genVals(r, vkind, n, 0) // distinct: more than 4096 stored values
	}
	ctx.Count("valkind:"+vkind, 1)
	ctx.Count("family:"+ks.Family, 1)
	// The instance is built twice from the same recipe: one copy answers the
	// operations alone (phase 1), the other is handed to the goroutines without
	// ever having been read - a lazily initialised or first-use cached state
	// would otherwise be warmed up by phase 1 and its race hidden.
	var o OptSet
	instName := ""
	rInst := r.U64()
	mk := func() (*trie.SlimTrie, error) {
		r := NewRNG(rInst)
		enc := vals.Encoder() // each copy gets its own encoder object too
		var st *trie.SlimTrie
		var err error
		switch kindNo {
		case 0:
			o = OptSet{D: r.Bool(), C: true}
			st, err = trie.NewSlimTrie(enc, keys, vals.Slice(), o.Opt())
			instName = "fresh-complete"
		case 1:
			o = OptSet{D: true, I: r.Bool(), L: false}
			st, err = trie.NewSlimTrie(enc, keys, vals.Slice(), o.Opt())
			instName = "fresh-filter"
		case 2:
			o = allOptSets()[r.Intn(16)]
			var s0 *trie.SlimTrie
			s0, err = trie.NewSlimTrie(enc, keys, vals.Slice(), o.Opt())
			if err == nil {
				b, _ := s0.Marshal()
				st, err, _, _ = loadTrie(enc, b)
			}
			instName = "loaded-current"
		case 3:
			o = OptSet{D: true, C: true}
			var s0 *trie.SlimTrie
			s0, err = trie.NewSlimTrie(enc, keys, vals.Slice(), o.Opt())
			if err == nil {
				b, _ := s0.Marshal()
				var ls []byte
				ls, err = legacyStream0510(b, "0.5.10")
				if err == nil {
					st, err, _, _ = loadTrie(enc, ls)
				}
			}
			instName = "loaded-0.5.10-allpref"
		case 4:
			o = OptSet{D: true}
			ls, ok := legacyStream3(keys, vals, oldVariants[r.Intn(len(oldVariants))])
			if !ok {
				err = fmt.Errorf("not encodable")
			} else {
				st, err, _, _ = loadTrie(enc, ls)
			}
			instName = "loaded-3sec"
		}
		return st, err
	}
	stSolo, err := mk()
	var st *trie.SlimTrie
	if err == nil {
		st, err = mk()
	}
	if err == nil && (stSolo == nil || st == nil) {
		err = fmt.Errorf("nil instance")
	}
	if err != nil || st == nil {
		ctx.Count("skipped:instance_not_built", 1)
		return
	}
	ctx.Eval()
	ctx.Count("instance:"+instName, 1)
	ctx.Count(fmt.Sprintf("goroutines:%d", G), 1)
	ctx.Count(fmt.Sprintf("gomaxprocs:%d", procs), 1)
	ctx.Nontrivial(mix(hashStr(keys...), uint64(idx)))
	qs := genQueries(r.Fork(), keys, 0)
	if len(qs) > 160 {
		p := r.Perm(len(qs))
		var sel []string
		for _, i := range p[:160] {
			sel = append(sel, qs[i])
		}
		qs = sel
	}
	nString := 0
	if n <= 300 {
		nString = 6
	} else if ks.Family == "big-5000" {
		nString = 1 // rendering thousands of nodes is slow under the race detector
	}
	ops := buildConcOps(st, qs, o.Complete(), vkind == "i32", nString)
	opsSolo := buildConcOps(stSolo, qs, o.Complete(), vkind == "i32", nString)

	// ---- phase 1: canonical results, sequentially
	canon := make([]string, len(ops))
	for i, op := range opsSolo {
		pv, _ := try(func() { canon[i] = op.run() })
		if pv != nil {
			canon[i] = pstr(pv)
		}
	}

	// ---- phase 2: G goroutines against the same instance
	prev := runtime.GOMAXPROCS(procs)
	defer runtime.GOMAXPROCS(prev)
	// Call/return instants come from the process's monotonic clock, read
	// without any atomic or lock: a shared atomic counter would order the
	// operations of different goroutines for the race detector
	// (happens-before through the counter) and hide every race whose two
	// accesses do not overlap in time - a lazily initialised field written by
	// one reader and read later by another, for instance. In-flight counts are
	// computed afterwards from the recorded intervals.
	base := time.Now()
	type gres struct {
		events []concEvent
		bad    []string
	}
	results := make([]gres, G)
	var wg sync.WaitGroup
	start := make(chan struct{})
	rounds := 2
	// one representative operation per API, Marshal/String/Stat first
	var burst []int
	for _, api := range []string{"Marshal", "String", "Stat", "proto.Size", "NewIter", "ScanFrom", "ScanFromTo", "Search", "RangeGet", "Get", "GetID", "GetI32"} {
		// the first, a middle and the last operation of that API (queries
		// differ: present and absent keys take different paths)
		var of []int
		for oi, op := range ops {
			if op.api == api {
				of = append(of, oi)
			}
		}
		if len(of) > 0 {
			burst = append(burst, of[0])
			if len(of) > 2 {
				burst = append(burst, of[len(of)/2], of[len(of)-1])
			}
		}
	}
	bar := newBarrier(G)
	ctx.Count("first_use_bursts", int64(len(burst)))
	for g := 0; g < G; g++ {
		wg.Add(1)
		gr := NewRNG(r.U64())
		go func(g int, gr *RNG) {
			defer wg.Done()
			res := &results[g]
			<-start
			// burst: the very first use of every API on the never-read instance
			// happens in all goroutines at once (a read API that writes on
			// first use - lazy conversion, dropped fields, memoisation - races
			// here or nowhere)
			for _, oi := range burst {
				bar.wait()
				op := ops[oi]
				call := int64(time.Since(base))
				var got string
				pv, _ := try(func() { got = op.run() })
				ret := int64(time.Since(base))
				if pv != nil {
					got = pstr(pv)
				}
				res.events = append(res.events, concEvent{api: apiIndex(op.api), call: call, ret: ret})
				if got != canon[oi] && len(res.bad) < 3 {
					res.bad = append(res.bad, fmt.Sprintf("%s (first-use burst): concurrent %q solo %q", op.api, truncate(got, 200), truncate(canon[oi], 200)))
				}
			}
			for round := 0; round < rounds; round++ {
				perm := gr.Perm(len(ops))
				for _, oi := range perm {
					op := ops[oi]
					if gr.Chance(1, 4) {
						runtime.Gosched()
					}
					call := int64(time.Since(base))
					var got string
					pv, _ := try(func() { got = op.run() })
					ret := int64(time.Since(base))
					if pv != nil {
						got = pstr(pv)
					}
					res.events = append(res.events, concEvent{api: apiIndex(op.api), call: call, ret: ret})
					if got != canon[oi] && len(res.bad) < 3 {
						res.bad = append(res.bad, fmt.Sprintf("%s: concurrent %q solo %q", op.api, truncate(got, 200), truncate(canon[oi], 200)))
					}
				}
			}
		}(g, gr)
	}
	close(start)
	wg.Wait()

	var all []concEvent
	for g := range results {
		all = append(all, results[g].events...)
		for _, b := range results[g].bad {
			ctx.Violate("C11/concurrent-result-differs/"+instName, map[string]interface{}{"instance": instName, "goroutines": G, "gomaxprocs": procs,
				"opt": o.String(), "n_keys": n, "keys_hex": hexKeys(keys, 20), "what": b})
		}
	}
	ctx.Count("operations", int64(len(all)))
	// overlap matrix by a sweep over call order
	sort.Slice(all, func(i, j int) bool { return all[i].call < all[j].call })
	var active []concEvent
	var matrix [16][16]bool
	multi := 0
	for _, ev := range all {
		k := 0
		for _, a := range active {
			if a.ret > ev.call {
				active[k] = a
				k++
			}
		}
		active = active[:k]
		for _, a := range active {
			matrix[a.api][ev.api] = true
			matrix[ev.api][a.api] = true
		}
		active = append(active, ev)
		ev.inflightAt = int32(len(active))
		if ev.inflightAt >= 2 {
			multi++
		}
		b := int(ev.inflightAt)
		if b > 8 {
			b = 8
		}
		ctx.Count(fmt.Sprintf("inflight_at_call:%d", b), 1)
	}
	ctx.Count("operations_started_with_inflight>=2", int64(multi))
	for i := range concAPIs {
		for j := i; j < len(concAPIs); j++ {
			if matrix[i][j] {
				ctx.Count("overlap:"+concAPIs[i]+"x"+concAPIs[j], 1)
			}
		}
	}

	// ---- iterators from one trie do not interfere
	if o.Complete() {
		m := NewModel(keys, vals, o.D)
		k := 6
		startsI := make([]string, k)
		for i := range startsI {
			startsI[i] = qs[r.Intn(len(qs))]
		}
		expectSeq := func(s string, incl bool) []string {
			p := sort.SearchStrings(m.RetKeys, s)
			if p < len(m.RetKeys) && m.RetKeys[p] == s && !incl {
				p++
			}
			return m.RetKeys[p:]
		}
		// (a) round-robin in one goroutine
		its := make([]trie.NextRaw, k)
		pos := make([]int, k)
		for i := range its {
			its[i] = st.NewIter(startsI[i], i%2 == 0, false)
		}
		okA := true
		for step := 0; step < 60 && okA; step++ {
			for i := range its {
				want := expectSeq(startsI[i], i%2 == 0)
				key, _ := its[i]()
				if pos[i] < len(want) {
					if key == nil || string(key) != want[pos[i]] {
						ctx.Violate("C11/iterators-interfere/"+instName, map[string]interface{}{"mode": "round-robin, one goroutine", "iterator": i, "start_hex": hexq(startsI[i]),
							"step": pos[i], "expected_hex": hexq(want[pos[i]]), "observed_hex": fmt.Sprintf("%x", key), "keys_hex": hexKeys(keys, 20)})
						okA = false
						break
					}
					pos[i]++
				} else if key != nil {
					ctx.Violate("C11/iterators-interfere/"+instName, map[string]interface{}{"mode": "round-robin, one goroutine", "iterator": i, "what": "yielded beyond its end", "observed_hex": fmt.Sprintf("%x", key)})
					okA = false
					break
				}
			}
		}
		ctx.Count("iterator_sets_interleaved_in_one_goroutine", 1)
		// (b) one iterator per goroutine, stepping with yields
		var wg2 sync.WaitGroup
		bad := make([]string, k)
		for i := 0; i < k; i++ {
			wg2.Add(1)
			go func(i int) {
				defer wg2.Done()
				want := expectSeq(startsI[i], i%2 == 0)
				pv, _ := try(func() {
					nxt := st.NewIter(startsI[i], i%2 == 0, true)
					for p := 0; p < 80; p++ {
						key, _ := nxt()
						if p < len(want) {
							if key == nil || string(key) != want[p] {
								bad[i] = fmt.Sprintf("iterator %d step %d: expected %x observed %x", i, p, want[p], key)
								return
							}
						} else {
							if key != nil {
								bad[i] = fmt.Sprintf("iterator %d yielded %x beyond its end", i, key)
							}
							return
						}
						runtime.Gosched()
					}
				})
				if pv != nil {
					bad[i] = pstr(pv)
				}
			}(i)
		}
		wg2.Wait()
		for _, b := range bad {
			if b != "" {
				ctx.Violate("C11/iterators-interfere/"+instName, map[string]interface{}{"mode": "one iterator per goroutine", "what": b, "keys_hex": hexKeys(keys, 20)})
			}
		}
		ctx.Count("iterator_sets_across_goroutines", 1)
	}
	if ctx.WantSample() && n <= 12 {
		ctx.Sample(map[string]interface{}{"instance": instName, "opt": o.String(), "keys_hex": hexKeys(keys, 12), "goroutines": G, "gomaxprocs": procs, "ops_per_goroutine": len(ops) * rounds,
			"operations": len(all), "started_with_inflight>=2": multi})
	}
}

func init() {
	register(&CheckDef{
		ID: "C11", Level: "exploration", Race: true,
		Rule:          "case = (one shared instance: fresh complete / fresh filter / loaded from current bytes / loaded from 0.5.10 allpref bytes / loaded from three-section bytes; G in {2,4,8,16,32} goroutines; GOMAXPROCS in {1,2,16}); every goroutine runs two seeded permutations of a fixed list of ~200-400 read operations (Get, GetID, RangeGet, Search, GetI32, ScanFrom, ScanFromTo, NewIter cursors, Stat, String, Marshal, proto.Size) with randomized yielding, released from a barrier; before that, the first use of every API on the never-read instance is made by all goroutines at once (one barrier per API); oracle: zero reports of the Go race detector with a frame in slim/low/protobuf, every concurrent result equals the result of the same operation run alone on an identically built second instance (the shared instance is never read before the goroutines start, so first-use initialisation happens under contention), k iterators of one trie stepped round-robin and across goroutines each yield exactly their own sequence; the harness itself is built with -race; non-trivial = every case; distinct by keys and (G, GOMAXPROCS)",
		NumCases:      c11NumCases,
		Run:           runC11,
		MinNontrivial: func(tier string) int { return c11NumCases(tier) * 3 / 4 },
		Gates: func(tier string, m *Merged) []string {
			var missed []string
			for i := range concAPIs {
				for j := i; j < len(concAPIs); j++ {
					if m.C("overlap:"+concAPIs[i]+"x"+concAPIs[j]) == 0 {
						missed = append(missed, "overlap:"+concAPIs[i]+"x"+concAPIs[j])
					}
				}
			}
			if m.C("operations_started_with_inflight>=2")*2 < m.C("operations") {
				missed = append(missed, "inflight>=2 for at least half of the operations")
			}
			for _, g := range []string{"instance:fresh-complete", "instance:fresh-filter", "instance:loaded-current", "instance:loaded-0.5.10-allpref", "instance:loaded-3sec",
				"iterator_sets_interleaved_in_one_goroutine", "iterator_sets_across_goroutines", "valkind:i32", "valkind:structLE", "valkind:str16"} {
				if m.C(g) == 0 {
					missed = append(missed, g)
				}
			}
			return missed
		},
		Finish: func(tier string, m *Merged, cov map[string]interface{}) {
			cov["race_detector"] = map[string]interface{}{"reports_total": m.C("race_reports"), "reports_with_slim_frames": m.C("race_reports_in_slim"),
				"how_counted": "GORACE=halt_on_error=0 log_path=...; 'WARNING: DATA RACE' blocks counted in the per-worker logs"}
			pairs := 0
			for i := range concAPIs {
				for j := i; j < len(concAPIs); j++ {
					if m.C("overlap:"+concAPIs[i]+"x"+concAPIs[j]) > 0 {
						pairs++
					}
				}
			}
			cov["api_pairs_overlapped"] = pairs
			cov["api_pairs_total"] = len(concAPIs) * (len(concAPIs) + 1) / 2
		},
		Assumptions: []string{"the Go race detector reports a race only when both accesses execute in the run and no happens-before edge orders them", "the detector is live: selftest plants a race and requires a report"},
	})
}
