package main

import (
	"bytes"
	"fmt"
	"reflect"
	"sort"

	"github.com/golang/protobuf/proto"
	"github.com/openacid/errors"
	"github.com/openacid/slim/array"
)

// C16 — compacted arrays behave as a sparse map and survive serialisation.

type typedGetter[T any] interface {
	Get(int32) (T, bool)
	proto.Message
}

// arrKind adapts one typed array to uint64-valued closures.
type arrKind struct {
	name string
	size int
	// build returns typed getter, its Base, the message, error, and whether the returned array is nil
	build func(idx []int32, vals []uint64) (get func(int32) (uint64, bool), base *array.Base, msg proto.Message, err error, isNil bool)
	// empty typed target for Unmarshal
	emptyTyped func() (proto.Message, func(int32) (uint64, bool), *array.Base)
	// zero value for array.NewEmpty and conversion for the generic accessor
	zero    interface{}
	toIface func(uint64) interface{}
	slice   func(vals []uint64) interface{}
}

func mkKind[T any, A typedGetter[T]](name string, size int, ctor func([]int32, []T) (A, error), conv func(uint64) T, back func(T) uint64,
	baseOf func(A) *array.Base, empty func() A, isNil func(A) bool) arrKind {
	mkSlice := func(vals []uint64) []T {
		s := make([]T, len(vals))
		for i, v := range vals {
			s[i] = conv(v)
		}
		return s
	}
	return arrKind{
		name: name, size: size,
		build: func(idx []int32, vals []uint64) (func(int32) (uint64, bool), *array.Base, proto.Message, error, bool) {
			a, err := ctor(idx, mkSlice(vals))
			if isNil(a) {
				return nil, nil, nil, err, true
			}
			return func(i int32) (uint64, bool) { v, ok := a.Get(i); return back(v), ok }, baseOf(a), a, err, false
		},
		emptyTyped: func() (proto.Message, func(int32) (uint64, bool), *array.Base) {
			a := empty()
			return a, func(i int32) (uint64, bool) { v, ok := a.Get(i); return back(v), ok }, baseOf(a)
		},
		zero:    conv(0),
		toIface: func(v uint64) interface{} { return conv(v) },
		slice:   func(vals []uint64) interface{} { return mkSlice(vals) },
	}
}

var arrKinds = []arrKind{
	mkKind[uint16, *array.U16]("U16", 2, array.NewU16, func(v uint64) uint16 { return uint16(v) }, func(v uint16) uint64 { return uint64(v) },
		func(a *array.U16) *array.Base { return &a.Base }, func() *array.U16 { return &array.U16{} }, func(a *array.U16) bool { return a == nil }),
	mkKind[uint32, *array.U32]("U32", 4, array.NewU32, func(v uint64) uint32 { return uint32(v) }, func(v uint32) uint64 { return uint64(v) },
		func(a *array.U32) *array.Base { return &a.Base }, func() *array.U32 { return &array.U32{} }, func(a *array.U32) bool { return a == nil }),
	mkKind[uint64, *array.U64]("U64", 8, array.NewU64, func(v uint64) uint64 { return v }, func(v uint64) uint64 { return v },
		func(a *array.U64) *array.Base { return &a.Base }, func() *array.U64 { return &array.U64{} }, func(a *array.U64) bool { return a == nil }),
	mkKind[int16, *array.I16]("I16", 2, array.NewI16, func(v uint64) int16 { return int16(v) }, func(v int16) uint64 { return uint64(uint16(v)) },
		func(a *array.I16) *array.Base { return &a.Base }, func() *array.I16 { return &array.I16{} }, func(a *array.I16) bool { return a == nil }),
	mkKind[int32, *array.I32]("I32", 4, array.NewI32, func(v uint64) int32 { return int32(v) }, func(v int32) uint64 { return uint64(uint32(v)) },
		func(a *array.I32) *array.Base { return &a.Base }, func() *array.I32 { return &array.I32{} }, func(a *array.I32) bool { return a == nil }),
	mkKind[int64, *array.I64]("I64", 8, array.NewI64, func(v uint64) int64 { return int64(v) }, func(v int64) uint64 { return uint64(v) },
		func(a *array.I64) *array.Base { return &a.Base }, func() *array.I64 { return &array.I64{} }, func(a *array.I64) bool { return a == nil }),
}

// defined element types for the generic array
type defU16 uint16
type defU32 uint32
type defU64 uint64
type defI32 int32
type defArr [2]uint16

func maskTo(v uint64, size int) uint64 {
	if size >= 8 {
		return v
	}
	return v & (uint64(1)<<(8*uint(size)) - 1)
}

// genIndexSet produces an ascending index set in [0, 2^20).
func genIndexSet(r *RNG, tier string) []int32 {
	var idx []int32
	switch r.Intn(8) {
	case 0: // empty
		return nil
	case 1: // single
		return []int32{int32(r.Intn(1 << uint(r.Range(0, 20))))}
	case 2: // dense prefix
		n := r.Range(1, 3000)
		for i := 0; i < n; i++ {
			idx = append(idx, int32(i))
		}
	case 3: // dense with holes
		n := r.Range(1, 6000)
		for i := 0; i < n; i++ {
			if !r.Chance(1, 5) {
				idx = append(idx, int32(i))
			}
		}
	case 4: // sparse with empty 64-bit words
		cur := 0
		n := r.Range(1, 800)
		for i := 0; i < n; i++ {
			cur += 1 + r.Intn(1<<uint(r.Range(0, 10)))
			if cur >= 1<<20 {
				break
			}
			idx = append(idx, int32(cur))
		}
	case 5: // clusters separated by long gaps
		cur := r.Intn(5000)
		for c := 0; c < r.Range(1, 12); c++ {
			for i := 0; i < r.Range(1, 200); i++ {
				idx = append(idx, int32(cur))
				cur += 1 + r.Intn(3)
			}
			cur += r.Intn(90000)
			if cur >= 1<<20-1000 {
				break
			}
		}
	case 6: // word boundaries
		for w := 0; w < r.Range(1, 300); w++ {
			for _, b := range []int{0, 63} {
				if r.Bool() {
					idx = append(idx, int32(w*64+b))
				}
			}
		}
	case 7: // near the top of the range
		cur := 1<<20 - 1 - r.Intn(3000)
		for cur < 1<<20 {
			idx = append(idx, int32(cur))
			cur += 1 + r.Intn(5)
		}
	}
	sort.Slice(idx, func(i, j int) bool { return idx[i] < idx[j] })
	out := idx[:0]
	for i, x := range idx {
		if i == 0 || x != idx[i-1] {
			out = append(out, x)
		}
	}
	return out
}

// c16Reused: long-lived generic arrays, one per element type, re-initialised by every case.
var c16Reused = map[string]*array.Array{}

// c16Targets: long-lived objects that every case unmarshals into.
type c16Target struct {
	msg   proto.Message
	tget  func(int32) (uint64, bool)
	tbase *array.Base
	gen   *array.Array
}

var c16Targets = map[string]*c16Target{}

func runC16(ctx *Ctx, idx int) {
	r := NewRNG(caseSeed(ctx.Seed, "C16", ctx.Tier, idx))
	k := arrKinds[idx%len(arrKinds)]
	ctx.Eval()
	ixs := genIndexSet(r, ctx.Tier)
	n := len(ixs)
	vals := make([]uint64, n)
	for i := range vals {
		vals[i] = maskTo(interesting64(r, i+r.Intn(8)), k.size)
	}
	model := make(map[int32]uint64, n)
	for i, x := range ixs {
		model[x] = vals[i]
	}
	viol := func(clause string, ex map[string]interface{}) {
		d := map[string]interface{}{"type": k.name, "n": n, "indexes": ixs[:min(n, 40)], "values": vals[:min(n, 40)]}
		for a, b := range ex {
			d[a] = b
		}
		ctx.Violate("C16/"+clause+"/"+k.name, d)
	}
	if n >= 2 {
		ctx.Nontrivial(mix(uint64(idx), hashStr(fmt.Sprint(ixs[:min(n, 50)]))))
	}
	ctx.Count("type:"+k.name, 1)

	// ---- invalid inputs first (independent of the valid build): an equal or a
	// descending neighbour at EVERY position of short lists, at seeded
	// positions of long ones
	if n >= 1 {
		var positions []int
		if n <= 16 {
			for p := 0; p < n; p++ {
				positions = append(positions, p)
			}
			ctx.Count("invalid:every_position_lists", 1)
		} else {
			positions = []int{0, n - 1, r.Intn(n), r.Intn(n)}
		}
		for _, pos := range positions {
			for _, kind := range []string{"equal", "descending"} {
				bad := append([]int32{}, ixs...)
				if kind == "descending" {
					if n < 2 {
						continue
					}
					p := pos
					if p == n-1 {
						p--
					}
					bad[p], bad[p+1] = bad[p+1], bad[p]
				} else {
					bad = append(bad[:pos+1], bad[pos:]...)
				}
				bvals := make([]uint64, len(bad))
				var err error
				var isNil bool
				pv, stack := try(func() { _, _, _, err, isNil = k.build(bad, bvals) })
				if pv != nil {
					viol("invalid-index-panic", map[string]interface{}{"panic": fmt.Sprint(pv), "stack": stack, "kind": kind, "position": pos})
				} else if errors.Cause(err) != array.ErrIndexNotAscending || !isNil {
					viol("invalid-index-not-rejected", map[string]interface{}{"error": fmt.Sprint(err), "array_nil": isNil, "kind": kind, "position": pos})
				} else {
					ctx.Count("rejected:ErrIndexNotAscending:"+kind, 1)
				}
				// generic constructor too
				var ga *array.Array
				pv, _ = try(func() { ga, err = array.New(bad, k.slice(bvals)) })
				if pv != nil || errors.Cause(err) != array.ErrIndexNotAscending || ga != nil {
					viol("invalid-index-not-rejected-generic", map[string]interface{}{"error": fmt.Sprint(err), "panic": fmt.Sprint(pv), "kind": kind, "position": pos})
				}
			}
		}
	}
	{
		// mismatched lengths
		for _, d := range []int{1, -1, []int{2, -2, r.Range(3, 50), -r.Range(3, 50), n, -n}[r.Intn(6)]} {
			ln := n + d
			if ln < 0 {
				ln = 0
			}
			if ln != n {
				var err error
				var isNil bool
				pv, stack := try(func() { _, _, _, err, isNil = k.build(ixs, make([]uint64, ln)) })
				if pv != nil {
					viol("length-mismatch-panic", map[string]interface{}{"panic": fmt.Sprint(pv), "stack": stack, "elts_len": ln})
				} else if errors.Cause(err) != array.ErrIndexLen || !isNil {
					viol("length-mismatch-not-rejected", map[string]interface{}{"error": fmt.Sprint(err), "array_nil": isNil, "elts_len": ln})
				} else {
					ctx.Count("rejected:ErrIndexLen", 1)
				}
				var ga *array.Array
				pv, _ = try(func() { ga, err = array.New(ixs, k.slice(make([]uint64, ln))) })
				if pv != nil || errors.Cause(err) != array.ErrIndexLen || ga != nil {
					viol("length-mismatch-not-rejected-generic", map[string]interface{}{"error": fmt.Sprint(err), "panic": fmt.Sprint(pv), "elts_len": ln})
				}
			}
		}
	}

	// ---- "build nothing": a rejected Init leaves a fresh value empty and an
	// array in use untouched (the New* constructors hide this by returning nil)
	if n >= 2 {
		for _, kind := range []string{"length", "order"} {
			bad := append([]int32{}, ixs...)
			bvals := k.slice(vals)
			if kind == "length" {
				bvals = k.slice(vals[:n-1])
			} else {
				p := r.Intn(n - 1)
				bad[p], bad[p+1] = bad[p+1], bad[p]
			}
			// fresh generic array
			fresh := &array.Array{}
			var err error
			pv, _ := try(func() { err = fresh.Init(bad, bvals) })
			if pv == nil && err != nil {
				if fresh.Cnt != 0 || len(fresh.Bitmaps) != 0 || len(fresh.Offsets) != 0 || len(fresh.Elts) != 0 {
					viol("rejected-init-built-something", map[string]interface{}{"kind": kind, "target": "fresh array.Array", "Cnt": fresh.Cnt, "bitmap_words": len(fresh.Bitmaps), "elts_bytes": len(fresh.Elts)})
				}
				if fresh.EltEncoder != nil {
					viol("rejected-init-built-something", map[string]interface{}{"kind": kind, "target": "fresh array.Array", "what": "the rejected call left an element encoder behind"})
				}
				// the same object must still be usable: a valid Init with another
				// element type, then every element read back
				other := make([]defU64, n)
				for i := range other {
					other[i] = defU64(vals[i]) + 7
				}
				var e2 error
				pv2, stack2 := try(func() {
					e2 = fresh.Init(ixs, other)
					if e2 != nil {
						return
					}
					for j := 0; j < n && j < 200; j++ {
						got, ok := fresh.Get(ixs[j])
						if !ok || got != interface{}(other[j]) {
							viol("init-after-rejected-init-wrong", map[string]interface{}{"kind": kind, "index": ixs[j], "got": fmt.Sprintf("%T(%v)", got, got), "want": fmt.Sprintf("%T(%v)", other[j], other[j])})
							return
						}
					}
				})
				if pv2 != nil || e2 != nil {
					viol("init-after-rejected-init-failed", map[string]interface{}{"kind": kind, "panic": fmt.Sprint(pv2), "error": fmt.Sprint(e2), "stack": stack2})
				}
				ctx.Count("rejected_init_leaves_fresh_value_empty", 1)
			} else {
				viol("invalid-init-not-rejected", map[string]interface{}{"kind": kind, "panic": fmt.Sprint(pv), "error": fmt.Sprint(err)})
			}
			// array in use: answers must not change
			used, uerr := array.New(ixs, k.slice(vals))
			if uerr == nil && used != nil {
				before, _ := proto.Marshal(used)
				pv, _ := try(func() { err = used.Init(bad, bvals) })
				after, _ := proto.Marshal(used)
				if pv != nil || err == nil {
					viol("invalid-init-not-rejected", map[string]interface{}{"kind": kind, "target": "array in use", "panic": fmt.Sprint(pv), "error": fmt.Sprint(err)})
				} else if !bytes.Equal(before, after) {
					viol("rejected-init-changed-array-in-use", map[string]interface{}{"kind": kind})
				} else {
					ctx.Count("rejected_init_leaves_used_array_untouched", 1)
				}
			}
		}
	}

	// ---- valid build
	var get func(int32) (uint64, bool)
	var base *array.Base
	var msg proto.Message
	var err error
	pv, stack := try(func() { get, base, msg, err, _ = k.build(ixs, vals) })
	if pv != nil || err != nil || get == nil {
		viol("valid-build-failed", map[string]interface{}{"panic": fmt.Sprint(pv), "error": fmt.Sprint(err), "stack": stack})
		return
	}
	span := int32(len(base.Bitmaps) * 64)
	if n > 0 && span <= ixs[n-1] {
		viol("span-too-short", map[string]interface{}{"span": span})
		return
	}
	// probes
	var probes []int32
	if span <= 1<<16 {
		for i := int32(0); i < span; i++ {
			probes = append(probes, i)
		}
		ctx.Count("arrays:all_indexes_probed", 1)
	} else {
		probes = append(probes, ixs...)
		for i := 0; i < 10000; i++ {
			probes = append(probes, int32(r.Intn(int(span))))
		}
		for _, x := range ixs[:min(n, 2000)] {
			if x > 0 {
				probes = append(probes, x-1)
			}
			if x+1 < span {
				probes = append(probes, x+1)
			}
		}
	}
	// generic arrays
	var gen1, gen2 *array.Array
	pv, stack = try(func() {
		gen1, err = array.New(ixs, k.slice(vals))
		if err != nil {
			return
		}
		gen2, err = array.NewEmpty(k.zero)
		if err != nil {
			return
		}
		err = gen2.Init(ixs, k.slice(vals))
	})
	if pv != nil || err != nil {
		viol("generic-build-failed", map[string]interface{}{"panic": fmt.Sprint(pv), "error": fmt.Sprint(err), "stack": stack})
		return
	}
	// one long-lived array object per element type is initialised again by
	// every case of this worker: index sets of very different sizes follow
	// each other (big, small, medium ...), and each time the object must be
	// exactly the array of the latest call
	reused := c16Reused[k.name]
	if reused == nil {
		reused, _ = array.NewEmpty(k.zero)
		c16Reused[k.name] = reused
	}
	if reused != nil {
		var rerr error
		pv, stack = try(func() { rerr = reused.Init(ixs, k.slice(vals)) })
		if pv != nil || rerr != nil {
			viol("reinit-of-used-array-failed", map[string]interface{}{"panic": fmt.Sprint(pv), "error": fmt.Sprint(rerr), "stack": stack})
			delete(c16Reused, k.name)
			reused = nil
		} else {
			ctx.Count("long_lived_array_reinitialised", 1)
			ctx.Max("long_lived_array_max_n", int64(n))
		}
	}
	// round trips
	var data []byte
	pv, stack = try(func() { data, err = proto.Marshal(msg) })
	if pv != nil || err != nil {
		viol("marshal-failed", map[string]interface{}{"panic": fmt.Sprint(pv), "error": fmt.Sprint(err), "stack": stack})
		return
	}
	tmsg, tget, tbase := k.emptyTyped()
	var gload *array.Array
	pv, stack = try(func() {
		err = proto.Unmarshal(data, tmsg)
		if err != nil {
			return
		}
		gload, err = array.NewEmpty(k.zero)
		if err != nil {
			return
		}
		err = proto.Unmarshal(data, gload)
	})
	if pv != nil || err != nil {
		viol("unmarshal-failed", map[string]interface{}{"panic": fmt.Sprint(pv), "error": fmt.Sprint(err), "stack": stack})
		return
	}
	// long-lived load targets, one typed and one generic object per element
	// type: every case unmarshals its array into objects that held - and
	// answered for - the arrays of earlier cases; every other time they are
	// first initialised in place with a contiguous list 0..m-1 (the one shape an
	// implementation might special-case), sometimes with the case's own list
	tg := c16Targets[k.name]
	if tg == nil {
		m, g, b := k.emptyTyped()
		ga, _ := array.NewEmpty(k.zero)
		tg = &c16Target{msg: m, tget: g, tbase: b, gen: ga}
		c16Targets[k.name] = tg
	}
	tgOK := false
	pv, stack = try(func() {
		switch (idx / len(arrKinds)) % 4 {
		case 0, 2:
			m := 1 + r.Intn(70)
			if (idx/len(arrKinds))%4 == 2 {
				m = 1
			}
			dense := make([]int32, m)
			dv := make([]uint64, m)
			for i := range dense {
				dense[i] = int32(i)
				dv[i] = maskTo(uint64(i)*0x0101010101010101+1, k.size)
			}
			if e := tg.gen.Init(dense, k.slice(dv)); e != nil {
				err = e
				return
			}
			if e := tg.tbase.Init(dense, k.slice(dv)); e != nil {
				err = e
				return
			}
			tg.gen.Get(0)
			tg.tget(0)
			ctx.Count("long_lived_load_target_dense_before_load", 1)
		case 1:
			if n > 0 {
				tg.gen.Init(ixs, k.slice(vals))
				tg.tbase.Init(ixs, k.slice(vals))
			}
		}
		if err = proto.Unmarshal(data, tg.msg); err != nil {
			return
		}
		if idx%2 == 0 {
			err = proto.Unmarshal(data, tg.gen)
		} else {
			// the other documented way to reuse a message
			tg.gen.Reset()
			err = proto.UnmarshalMerge(data, tg.gen)
		}
		tgOK = err == nil
	})
	if pv != nil || err != nil {
		viol("unmarshal-into-used-object-failed", map[string]interface{}{"panic": fmt.Sprint(pv), "error": fmt.Sprint(err), "stack": stack})
		delete(c16Targets, k.name)
		return
	}
	if tgOK {
		ctx.Count("long_lived_load_target_loaded", 1)
	}
	// generic array marshalled and loaded into the typed one
	tmsg2, tget2, _ := k.emptyTyped()
	pv, stack = try(func() {
		var d2 []byte
		d2, err = proto.Marshal(gen1)
		if err != nil {
			return
		}
		err = proto.Unmarshal(d2, tmsg2)
	})
	if pv != nil || err != nil {
		viol("generic-to-typed-failed", map[string]interface{}{"panic": fmt.Sprint(pv), "error": fmt.Sprint(err), "stack": stack})
		return
	}

	type acc struct {
		name string
		get  func(int32) (uint64, bool, string)
	}
	genGet := func(a *array.Array) func(int32) (uint64, bool, string) {
		return func(i int32) (uint64, bool, string) {
			if n == 0 {
				return 0, false, "" // no encoder on an empty generic array; nothing to probe
			}
			v, ok := a.Get(i)
			if !ok {
				if v != nil {
					return 0, false, "non-nil value with found=false"
				}
				return 0, false, ""
			}
			want := k.toIface(0)
			if reflect.TypeOf(v) != reflect.TypeOf(want) {
				return 0, true, fmt.Sprintf("dynamic type %T", v)
			}
			rv := reflect.ValueOf(v)
			switch rv.Kind() {
			case reflect.Int16, reflect.Int32, reflect.Int64:
				return maskTo(uint64(rv.Int()), k.size), true, ""
			}
			return rv.Uint(), true, ""
		}
	}
	rawGet := func(b *array.Base) func(int32) (uint64, bool, string) {
		return func(i int32) (uint64, bool, string) {
			bs, ok := b.GetBytes(i, k.size)
			if !ok {
				if bs != nil {
					return 0, false, "non-nil bytes with found=false"
				}
				return 0, false, ""
			}
			if len(bs) != k.size {
				return 0, true, fmt.Sprintf("raw length %d", len(bs))
			}
			var v uint64
			for j := 0; j < k.size; j++ {
				v |= uint64(bs[j]) << (8 * uint(j))
			}
			return v, true, ""
		}
	}
	wrap := func(g func(int32) (uint64, bool)) func(int32) (uint64, bool, string) {
		return func(i int32) (uint64, bool, string) { v, ok := g(i); return v, ok, "" }
	}
	accs := []acc{
		{"typed", wrap(get)}, {"raw", rawGet(base)}, {"generic(New)", genGet(gen1)}, {"generic(NewEmpty+Init)", genGet(gen2)},
		{"typed-after-roundtrip", wrap(tget)}, {"raw-after-roundtrip", rawGet(tbase)}, {"generic-after-roundtrip", genGet(gload)},
		{"typed-loaded-from-generic", wrap(tget2)},
	}
	if tgOK {
		accs = append(accs, acc{"typed(long-lived object, loaded again)", wrap(tg.tget)}, acc{"raw(long-lived object, loaded again)", rawGet(tg.tbase)},
			acc{"generic(long-lived object, loaded again)", genGet(tg.gen)}, acc{"raw-of-generic(long-lived object, loaded again)", rawGet(&tg.gen.Base)})
	}
	if reused != nil {
		// (only its answers are compared: re-initialising with an empty list
		// leaves the old element bytes behind, unreachable - wasteful, but no
		// answer changes, so the serialised form is not compared)
		accs = append(accs, acc{"generic(long-lived object initialised again)", genGet(reused)})
	}
	for _, a := range accs {
		cur := int32(-1)
		pv, stack := try(func() {
			for _, p := range probes {
				cur = p
				v, ok, why := a.get(p)
				want, present := model[p]
				if why != "" || ok != present || v != want {
					if n == 0 {
						continue
					}
					viol("wrong-answer", map[string]interface{}{"accessor": a.name, "probe": p, "found": ok, "value": v, "expected_found": present, "expected_value": want, "why": why})
					return
				}
			}
		})
		if pv != nil {
			viol("accessor-panic", map[string]interface{}{"accessor": a.name, "probe": cur, "panic": fmt.Sprint(pv), "stack": stack})
		}
		ctx.Count("probes:"+a.name, int64(len(probes)))
	}
	// re-marshal of the loaded typed array reproduces the bytes
	if d3, err := proto.Marshal(tmsg); err != nil || !bytes.Equal(d3, data) {
		viol("remarshal-differs", map[string]interface{}{"error": fmt.Sprint(err)})
	}
	// more than 64 KiB of struct elements whose size does not divide 65536
	// (6 bytes, 12 000 to 30 000 of them): whatever is done batch-wise for big
	// arrays must come out like the small ones
	if idx%24 == 5 {
		type six struct {
			A uint32
			B uint16
		}
		m := 12000 + r.Intn(18000)
		bix := make([]int32, m)
		bel := make([]six, m)
		cur := int32(r.Intn(5))
		for i := range bix {
			bix[i] = cur
			cur += int32(1 + r.Intn(3))
			bel[i] = six{A: uint32(i)*2654435761 + 7, B: uint16(i * 31)}
		}
		pv, stack := try(func() {
			ba, err := array.New(bix, bel)
			if err != nil || ba == nil {
				viol("big-struct-array-build-failed", map[string]interface{}{"error": fmt.Sprint(err), "elements": m})
				return
			}
			d, _ := proto.Marshal(ba)
			bl, _ := array.NewEmpty(six{})
			if proto.Unmarshal(d, bl) != nil {
				viol("big-struct-array-roundtrip-failed", map[string]interface{}{"elements": m})
				return
			}
			for _, a := range []*array.Array{ba, bl} {
				for i := 0; i < m; i += 1 + i%7 {
					v, ok := a.Get(bix[i])
					if !ok || v != interface{}(bel[i]) {
						viol("struct-wrong-answer", map[string]interface{}{"element_type": "struct{uint32;uint16}", "elements": m, "element_bytes": 6 * m, "position": i, "index": bix[i], "found": ok, "value": fmt.Sprint(v), "expected": fmt.Sprint(bel[i])})
						return
					}
					if i+1 < m && bix[i]+1 != bix[i+1] {
						if v2, ok2 := a.Get(bix[i] + 1); ok2 || v2 != nil {
							viol("struct-wrong-answer", map[string]interface{}{"element_type": "struct{uint32;uint16}", "index": bix[i] + 1, "what": "absent index reported present"})
							return
						}
					}
				}
			}
			ctx.Count("arrays:struct_elements_beyond_64KiB", 1)
		})
		if pv != nil {
			viol("accessor-panic", map[string]interface{}{"element_type": "struct{uint32;uint16}", "elements": m, "panic": fmt.Sprint(pv), "stack": stack})
		}
	}
	// struct elements with blank padding fields through the generic array
	if idx%6 == 3 && n > 0 {
		ps := make([]PadStruct, n)
		for i := range ps {
			ps[i] = PadStruct{Kind: uint8(vals[i]), Off: uint32(vals[i] >> 5), Score: float32(int16(vals[i]>>3)) / 4, Tail: int16(i)}
		}
		pv, stack := try(func() {
			pa, err := array.New(ixs, ps)
			if err != nil || pa == nil {
				viol("padded-struct-build-failed", map[string]interface{}{"error": fmt.Sprint(err)})
				return
			}
			d, e2 := proto.Marshal(pa)
			pl, e3 := array.NewEmpty(PadStruct{})
			if e2 != nil || e3 != nil || proto.Unmarshal(d, pl) != nil {
				viol("padded-struct-roundtrip-failed", map[string]interface{}{"errors": fmt.Sprint(e2, e3)})
				return
			}
			for _, a := range []*array.Array{pa, pl} {
				for pi, p := range probes {
					if pi > 3000 {
						break
					}
					v, ok := a.Get(p)
					j := sort.Search(n, func(i int) bool { return ixs[i] >= p })
					present := j < n && ixs[j] == p
					if ok != present || (present && !reflect.DeepEqual(v, ps[j])) || (!present && v != nil) {
						viol("struct-wrong-answer", map[string]interface{}{"element_type": "PadStruct", "probe": p, "found": ok, "value": fmt.Sprint(v)})
						return
					}
				}
			}
			ctx.Count("arrays:padded_struct_elements", 1)
		})
		if pv != nil {
			viol("accessor-panic", map[string]interface{}{"element_type": "PadStruct", "panic": fmt.Sprint(pv), "stack": stack})
		}
	}
	// struct elements through the generic array
	if idx%6 == 0 && n > 0 {
		ss := make([]TStruct, n)
		for i := range ss {
			ss[i] = structOf(int64(vals[i]) + int64(i))
		}
		var sa *array.Array
		pv, stack := try(func() {
			sa, err = array.New(ixs, ss)
			if err != nil {
				return
			}
			d, e2 := proto.Marshal(sa)
			if e2 != nil {
				err = e2
				return
			}
			sl, e3 := array.NewEmpty(TStruct{})
			if e3 != nil {
				err = e3
				return
			}
			if err = proto.Unmarshal(d, sl); err != nil {
				return
			}
			for _, a := range []*array.Array{sa, sl} {
				for pi, p := range probes {
					if pi > 3000 {
						break
					}
					v, ok := a.Get(p)
					j := sort.Search(n, func(i int) bool { return ixs[i] >= p })
					present := j < n && ixs[j] == p
					if ok != present || (present && !reflect.DeepEqual(v, ss[j])) || (!present && v != nil) {
						viol("struct-wrong-answer", map[string]interface{}{"probe": p, "found": ok, "value": fmt.Sprint(v)})
						return
					}
				}
			}
			ctx.Count("arrays:struct_elements", 1)
		})
		if pv != nil || err != nil {
			viol("struct-array-failed", map[string]interface{}{"panic": fmt.Sprint(pv), "error": fmt.Sprint(err), "stack": stack})
		}
	}
	// defined (named) element types through the generic array: what Get hands
	// back must be the element that was stored - same dynamic type, same value -
	// before and after a round trip
	if idx%6 == 3 && n > 0 {
		checkDefined := func(name string, elts interface{}, zero interface{}) {
			var err error
			pv, stack := try(func() {
				var a, l *array.Array
				a, err = array.New(ixs, elts)
				if err != nil {
					return
				}
				var d []byte
				if d, err = proto.Marshal(a); err != nil {
					return
				}
				if l, err = array.NewEmpty(zero); err != nil {
					return
				}
				if err = proto.Unmarshal(d, l); err != nil {
					return
				}
				rv := reflect.ValueOf(elts)
				for j := 0; j < n && j < 500; j++ {
					want := rv.Index(j).Interface()
					for which, arr := range []*array.Array{a, l} {
						got, ok := arr.Get(ixs[j])
						if !ok || reflect.TypeOf(got) != reflect.TypeOf(want) || !reflect.DeepEqual(got, want) {
							viol("defined-type-wrong-answer", map[string]interface{}{"element_type": name, "index": ixs[j], "after_roundtrip": which == 1,
								"found": ok, "got": fmt.Sprintf("%T(%v)", got, got), "want": fmt.Sprintf("%T(%v)", want, want)})
							return
						}
					}
				}
				ctx.Count("arrays:defined_element_types", 1)
			})
			if pv != nil || err != nil {
				viol("defined-type-array-failed", map[string]interface{}{"element_type": name, "panic": fmt.Sprint(pv), "error": fmt.Sprint(err), "stack": stack})
			}
		}
		switch (idx / 6) % 5 {
		case 0:
			e := make([]defU16, n)
			for i := range e {
				e[i] = defU16(vals[i])
			}
			checkDefined("defU16", e, defU16(0))
		case 1:
			e := make([]defU32, n)
			for i := range e {
				e[i] = defU32(vals[i])
			}
			checkDefined("defU32", e, defU32(0))
		case 2:
			e := make([]defU64, n)
			for i := range e {
				e[i] = defU64(vals[i])
			}
			checkDefined("defU64", e, defU64(0))
		case 3:
			e := make([]defI32, n)
			for i := range e {
				e[i] = defI32(vals[i])
			}
			checkDefined("defI32", e, defI32(0))
		case 4:
			e := make([]defArr, n)
			for i := range e {
				e[i] = defArr{uint16(vals[i]), uint16(vals[i] >> 16)}
			}
			checkDefined("defArr", e, defArr{})
		}
	}
	emptyWords := 0
	for _, w := range base.Bitmaps {
		if w == 0 {
			emptyWords++
		}
	}
	if emptyWords > 0 {
		ctx.Count("arrays:with_empty_words", 1)
	}
	if n == 0 {
		ctx.Count("arrays:empty", 1)
	}
	if n == 1 {
		ctx.Count("arrays:single", 1)
	}
	ctx.Max("span", int64(span))
	if ctx.WantSample() && n >= 2 && n <= 8 {
		ctx.Sample(map[string]interface{}{"type": k.name, "indexes": ixs, "values": vals, "span": span, "probes": len(probes)})
	}
}

func init() {
	register(&CheckDef{
		ID: "C16", Level: "exploration",
		Rule: "case = (array type U16/U32/U64/I16/I32/I64, ascending index set in [0,2^20) - empty, single, dense, holes, sparse with empty 64-bit words, clusters, word boundaries, top of range - and full-range elements); oracle: a Go map compared at every index of the bitmap span (spans <= 2^16) or all present indexes, their neighbours and 10^4 random probes, through the typed accessor, Base.GetBytes, array.New and NewEmpty+Init generic accessors, and after proto round trips into the typed and the generic type (and generic -> typed); re-marshal reproduces the bytes; struct elements and defined (named) integer/array element types through the generic array (same dynamic type and value before and after a round trip); an equal and a descending neighbour at every position of lists of <=16 indexes (4 seeded positions of longer ones) and length mismatches of +1, -1 and a seeded amount are rejected with ErrIndexNotAscending / ErrIndexLen (by identity) and a nil array; one long-lived typed and one long-lived generic object per element type are the destination of every case's unmarshal (after holding earlier arrays, every other time after an in-place Init with a contiguous list 0..m-1) and are read through all accessors; a rejected Init called directly leaves a fresh value empty (Cnt, bitmap, offsets, elements) and an array in use byte-identical; non-trivial = at least 2 elements",
		NumCases: func(tier string) int {
			if tier == "thorough" {
				return 300000
			}
			return 2400
		},
		Run:           runC16,
		MinNontrivial: func(tier string) int { return 500 },
		Gates: shapeGates("type:U16", "type:U32", "type:U64", "type:I16", "type:I32", "type:I64", "arrays:all_indexes_probed", "arrays:with_empty_words", "arrays:empty", "arrays:single",
			"arrays:struct_elements", "arrays:struct_elements_beyond_64KiB", "arrays:padded_struct_elements", "arrays:defined_element_types", "rejected:ErrIndexNotAscending:equal", "rejected:ErrIndexNotAscending:descending", "rejected:ErrIndexLen", "invalid:every_position_lists", "rejected_init_leaves_fresh_value_empty", "rejected_init_leaves_used_array_untouched", "probes:typed-after-roundtrip", "probes:generic-after-roundtrip", "long_lived_load_target_loaded", "long_lived_load_target_dense_before_load"),
		Assumptions: []string{"probes stay inside the bitmap span, as the statement says"},
	})
}
