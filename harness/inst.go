package main

import (
	"fmt"
	"math/bits"
	"runtime/debug"
	"sync/atomic"

	"github.com/golang/protobuf/proto"
	"github.com/openacid/slim/encode"
	"github.com/openacid/slim/trie"
)

// try runs f and converts a panic into an observation.
func try(f func()) (pv interface{}, stack string) {
	defer func() {
		if r := recover(); r != nil {
			pv = r
			stack = truncate(string(debug.Stack()), 3000)
			if pv == nil {
				pv = "nil panic"
			}
		}
	}()
	f()
	return nil, ""
}

// Inst is one trie instance under observation.
type Inst struct {
	Name string
	St   *trie.SlimTrie
}

// buildTrie calls NewSlimTrie inside recover.
func buildTrie(enc encode.Encoder, keys []string, vals interface{}, opt trie.Opt) (st *trie.SlimTrie, err error, pv interface{}, stack string) {
	pv, stack = try(func() {
		st, err = trie.NewSlimTrie(enc, keys, vals, opt)
	})
	return
}

// loadTrie unmarshals stream into a new instance created with enc.
// The receiver is created with a different option spelling every time (all 81
// nil/false/true combinations in turn): what a stream holds does not depend on
// the options of the empty instance it is loaded into.
func loadTrie(enc encode.Encoder, stream []byte) (st *trie.SlimTrie, err error, pv interface{}, stack string) {
	code := int(atomic.AddInt32(&receiverOptCounter, 1))
	pv, stack = try(func() {
		if code%3 == 0 {
			st, err = trie.NewSlimTrie(enc, nil, nil)
		} else {
			opt, _ := triOpt(code / 3 % 81)
			st, err = trie.NewSlimTrie(enc, nil, nil, opt)
		}
		if err != nil {
			return
		}
		err = st.Unmarshal(stream)
	})
	return
}

var receiverOptCounter int32

// loadTrieProto loads through proto.Unmarshal into an instance that previously
// held other data.
func loadTrieProto(enc encode.Encoder, stream []byte) (st *trie.SlimTrie, err error, pv interface{}, stack string) {
	pv, stack = try(func() {
		st, err = trie.NewSlimTrie(enc, []string{"old", "older", "oldest"}, nil)
		if err != nil {
			return
		}
		err = proto.Unmarshal(stream, st)
	})
	return
}

// loadTrieReused loads with st.Unmarshal directly (no Reset) into an instance
// that holds another trie and has already answered reads of every kind.
func loadTrieReused(enc encode.Encoder, stream []byte, oldVals interface{}) (st *trie.SlimTrie, err error, pv interface{}, stack string) {
	pv, stack = try(func() {
		st, err = trie.NewSlimTrie(enc, []string{"old", "older", "oldest"}, oldVals, trie.Opt{Complete: trie.Bool(true)})
		if err != nil {
			return
		}
		_ = st.String()
		_ = st.Stat()
		st.Marshal()
		st.Get("old")
		st.GetID("oldest")
		st.RangeGet("olden")
		st.Search("older")
		st.ScanFrom("", true, oldVals != nil, func(k, v []byte) bool { return true })
		nxt := st.NewIter("old", false, oldVals != nil)
		nxt()
		if oldVals != nil {
			// the typed getter that matches the encoder, on keys that are found
			for _, k := range []string{"old", "oldest", "absent"} {
				switch enc.(type) {
				case encode.I8:
					st.GetI8(k)
				case encode.I16:
					st.GetI16(k)
				case encode.I32:
					st.GetI32(k)
				case encode.I64:
					st.GetI64(k)
				}
			}
		}
		// every second time the object first sees loads that are refused, of the
		// kinds an interrupted transfer or a foreign file produce; what they return
		// is C07's business, here only the final load counts: a refused load must
		// leave nothing behind that the next successful one picks up
		sel := len(stream) % 4
		if sel == 1 || sel == 3 {
			for _, ver := range []string{"0.5.10", "0.5.11"} {
				old, lerr := legacyStream0510(stream, ver)
				if lerr != nil || len(old) < 40 {
					old = withVersion(stream, ver)
				}
				try(func() { st.Unmarshal(old[:32+(len(old)-32)*2/3]) })
				try(func() { st.Unmarshal(old[:len(old)-1]) })
			}
			if len(stream) > 33 {
				try(func() { st.Unmarshal(stream[:32+(len(stream)-32)/2]) })
			}
		}
		if sel == 2 || sel == 3 {
			try(func() { st.Unmarshal(stream[:min(len(stream), 9)]) })
			try(func() { st.Unmarshal(withVersion(stream, "0.6.0")) })
			try(func() { st.Unmarshal(withVersion(stream, "0.5.10")) }) // a current body under an old header: refused or not, it is not what counts
		}
		err = st.Unmarshal(stream)
	})
	return
}

// parseSlim decodes the body of a current-format stream for statistics.
func parseSlim(stream []byte) *trie.Slim {
	if len(stream) < 32 {
		return nil
	}
	s := &trie.Slim{}
	if err := proto.Unmarshal(stream[32:], s); err != nil {
		return nil
	}
	return s
}

// Shape is what the marshalled message shows about the structure. It is used
// for evidence and observation gates only, never for a verdict.
type Shape struct {
	Nodes, Inners, Big, Short int
	ShortSize                 int
	Straddle                  int
	HalfBytePrefix            int
	AlignedPrefix             int
	StepGE256                 int
	EndOfKeyLabels            int
	SingleLabelInner          int
	VarLenLeaves              bool
	EmptyLeaves               bool
	LeafPrefixWords           int
	BigDepth2                 bool
}

func popcnt(ws []uint64) int {
	n := 0
	for _, w := range ws {
		n += bits.OnesCount64(w)
	}
	return n
}

func getBit(ws []uint64, i int) bool {
	if i>>6 >= len(ws) {
		return false
	}
	return ws[i>>6]>>(uint(i)&63)&1 == 1
}

func classify(s *trie.Slim) Shape {
	var sh Shape
	if s == nil || s.NodeTypeBM == nil {
		return sh
	}
	sh.Inners = popcnt(s.NodeTypeBM.Words)
	sh.Big = int(s.BigInnerCnt)
	sh.ShortSize = int(s.ShortSize)
	if s.ShortBM != nil {
		sh.Short = popcnt(s.ShortBM.Words)
	}
	if s.Inners != nil {
		sh.Nodes = popcnt(s.Inners.Words) + 1
	} else {
		sh.Nodes = 1
	}
	// walk inner nodes
	ithShort := 0
	for i := 0; i < sh.Inners; i++ {
		var from, size int
		if i < sh.Big {
			from, size = i*257, 257
		} else {
			from = 240*sh.Big + 17*i + (sh.ShortSize-17)*ithShort
			if s.ShortBM != nil && getBit(s.ShortBM.Words, i) {
				size = sh.ShortSize
				ithShort++
				if from&63 > 64-sh.ShortSize {
					sh.Straddle++
				}
			} else {
				size = 17
			}
		}
		if size == 17 || size == 257 {
			cnt := 0
			for b := 0; b < size; b++ {
				if getBit(s.Inners.Words, from+b) {
					cnt++
				}
			}
			if getBit(s.Inners.Words, from) {
				sh.EndOfKeyLabels++
			}
			if cnt == 1 {
				sh.SingleLabelInner++
			}
		} else if size > 0 {
			// short node: look the bitmap up
			var bm uint64
			for b := 0; b < size; b++ {
				if getBit(s.Inners.Words, from+b) {
					bm |= 1 << uint(b)
				}
			}
			if int(bm) < len(s.ShortTable) {
				full := s.ShortTable[bm]
				if full&1 == 1 {
					sh.EndOfKeyLabels++
				}
				if bits.OnesCount32(full) == 1 {
					sh.SingleLabelInner++
				}
			}
		}
	}
	if ips := s.InnerPrefixes; ips != nil {
		if ips.PositionBM != nil {
			// elements end at set bits of PositionBM
			prev := -1
			for wi, w := range ips.PositionBM.Words {
				for w != 0 {
					p := wi*64 + bits.TrailingZeros64(w)
					w &= w - 1
					if prev >= 0 && p > prev && p-1 < len(ips.Bytes) {
						if ips.Bytes[p-1] == 0xff {
							sh.AlignedPrefix++
						} else {
							sh.HalfBytePrefix++
						}
					}
					prev = p
				}
			}
		} else if ips.FixedSize == 2 {
			for i := 0; i+1 < len(ips.Bytes); i += 2 {
				if ips.Bytes[i] != 0 {
					sh.StepGE256++
				}
			}
		}
	}
	if lv := s.Leaves; lv != nil {
		sh.VarLenLeaves = lv.PositionBM != nil
		if lv.PresenceBM != nil {
			sh.EmptyLeaves = popcnt(lv.PresenceBM.Words) < int(lv.N)
		}
	}
	if lp := s.LeafPrefixes; lp != nil && lp.PresenceBM != nil {
		sh.LeafPrefixWords = len(lp.PresenceBM.Words)
	}
	return sh
}

// countShape adds a shape to the observation counters.
func countShape(ctx *Ctx, sh Shape) {
	if sh.Nodes == 0 {
		ctx.Count("shape:empty", 1)
		return
	}
	ctx.Count("shape:tries", 1)
	if sh.Big > 0 {
		ctx.Count("shape:with_257bit_nodes", 1)
	}
	if sh.Big > 1 {
		ctx.Count("shape:with_257bit_below_root", 1)
	}
	if sh.Big > 257 {
		ctx.Count("shape:with_more_than_257_big_nodes", 1)
	}
	if sh.Inners-sh.Big-sh.Short > 0 {
		ctx.Count("shape:with_17bit_nodes", 1)
	}
	if sh.Short > 0 {
		ctx.Count("shape:with_short_nodes", 1)
		ctx.Count(fmt.Sprintf("shape:shortsize_%d", sh.ShortSize), 1)
	}
	if sh.Straddle > 0 {
		ctx.Count("shape:with_straddling_short", 1)
	}
	if sh.HalfBytePrefix > 0 {
		ctx.Count("shape:with_halfbyte_prefix", 1)
	}
	if sh.AlignedPrefix > 0 {
		ctx.Count("shape:with_aligned_prefix", 1)
	}
	if sh.StepGE256 > 0 {
		ctx.Count("shape:with_step_ge256", 1)
	}
	if sh.EndOfKeyLabels > 0 {
		ctx.Count("shape:with_end_of_key_label", 1)
	}
	if sh.SingleLabelInner > 0 {
		ctx.Count("shape:with_single_label_inner", 1)
	}
	if sh.VarLenLeaves {
		ctx.Count("shape:with_varlen_leaves", 1)
	}
	if sh.EmptyLeaves {
		ctx.Count("shape:with_empty_leaves", 1)
	}
	if sh.LeafPrefixWords > 1 {
		ctx.Count("shape:leafprefix_words_gt1", 1)
	}
	if sh.Nodes > 65535 {
		ctx.Count("shape:nodes_gt_65535", 1)
	}
	ctx.Max("nodes", int64(sh.Nodes))
}
