package main

import (
	"bytes"
	"encoding/binary"
	"encoding/hex"
	"fmt"
	"math"
	"math/bits"
	"reflect"
	"strings"

	"github.com/openacid/slim/encode"
)

// C15 — value encoders round-trip with consistent sizes and LE layout.

var junkTail = []byte{0xde, 0xad, 0xbe, 0xef, 0x00, 0xff, 0x7f, 0x80, 0x01}

// encOracle checks one value against its reference bytes. Returns a clause
// name on violation.
func encOracle(e encode.Encoder, v interface{}, ref []byte, scratch *[]byte) (string, map[string]interface{}) {
	enc := e.Encode(v)
	if !bytes.Equal(enc, ref) {
		return "layout", map[string]interface{}{"encoded": hex.EncodeToString(enc), "reference": hex.EncodeToString(ref)}
	}
	n, d := e.Decode(enc)
	if n != len(enc) {
		return "decode-consumed", map[string]interface{}{"consumed": n, "len": len(enc)}
	}
	if !sameDecoded(d, v) {
		return "roundtrip", map[string]interface{}{"decoded": show(d)}
	}
	if s := e.GetSize(v); s != len(enc) {
		return "getsize", map[string]interface{}{"GetSize": s, "len": len(enc)}
	}
	if s := e.GetEncodedSize(enc); s != len(enc) {
		return "getencodedsize", map[string]interface{}{"GetEncodedSize": s, "len": len(enc)}
	}
	// unrelated bytes follow the encoding
	buf := append((*scratch)[:0], enc...)
	buf = append(buf, junkTail...)
	*scratch = buf
	n, d = e.Decode(buf)
	if n != len(enc) || !sameDecoded(d, v) {
		return "decode-with-trailing-bytes", map[string]interface{}{"consumed": n, "len": len(enc), "decoded": show(d)}
	}
	if s := e.GetEncodedSize(buf); s != len(enc) {
		return "getencodedsize-with-trailing-bytes", map[string]interface{}{"GetEncodedSize": s, "len": len(enc)}
	}
	// The bytes Encode returned are the caller's: it may patch them in place
	// and append to them (a write into whatever spare capacity the slice has).
	// Neither may change what Encode answers afterwards - for this value (here)
	// or for the values checked after it (their own layout clause). Encoders
	// that hand their argument through (encode.Bytes) are left alone: there
	// the result IS the value.
	if vb, ok := v.([]byte); !ok || len(vb) == 0 || len(enc) == 0 || &vb[0] != &enc[0] {
		for i := range enc {
			enc[i] ^= 0xa5
		}
		if cap(enc) > len(enc) {
			sp := enc[len(enc):cap(enc)]
			for i := range sp {
				sp[i] = 0xa5
			}
		}
		again := e.Encode(v)
		if !bytes.Equal(again, ref) {
			return "encode-after-caller-modified-earlier-result", map[string]interface{}{"encoded": hex.EncodeToString(again), "reference": hex.EncodeToString(ref)}
		}
	}
	return "", nil
}

// c15Rec is one checked (encoder object, value, reference bytes) triple kept
// for the concurrent replay at the end of a job.
type c15Rec struct {
	kind string
	e    encode.Encoder
	v    interface{}
	ref  []byte
}

// concurrentReplay: an encoder object is shared by every reader of a trie, so
// Encode/Decode on ONE object from several goroutines at once must give what
// they give alone. Returns the first disagreement.
func concurrentReplay(recs []c15Rec, goroutines, reps int) (bad *c15Rec, what string) {
	type res struct {
		i    int
		what string
	}
	out := make(chan res, goroutines)
	start := make(chan struct{})
	for g := 0; g < goroutines; g++ {
		go func(g int) {
			<-start
			r := res{-1, ""}
			defer func() {
				if p := recover(); p != nil {
					r.what = "panic: " + fmt.Sprint(p)
				}
				out <- r
			}()
			for rep := 0; rep < reps; rep++ {
				for k := range recs {
					i := (k*(2*g+1) + g*7 + rep) % len(recs)
					rc := &recs[i]
					r.i = i
					enc := rc.e.Encode(rc.v)
					if !bytes.Equal(enc, rc.ref) {
						r.what = "Encode gave " + hex.EncodeToString(enc)
						return
					}
					n, d := rc.e.Decode(rc.ref)
					if n != len(rc.ref) || !sameDecoded(d, rc.v) {
						r.what = fmt.Sprintf("Decode gave (%d, %s)", n, show(d))
						return
					}
					if rc.e.GetSize(rc.v) != len(rc.ref) || rc.e.GetEncodedSize(rc.ref) != len(rc.ref) {
						r.what = "sizes differ"
						return
					}
				}
			}
			r.i = -1
		}(g)
	}
	close(start)
	for g := 0; g < goroutines; g++ {
		r := <-out
		if r.what != "" && bad == nil && r.i >= 0 {
			bad, what = &recs[r.i], r.what
		}
	}
	return
}

func sameDecoded(d, v interface{}) bool {
	if vb, ok := v.([]byte); ok {
		db, ok := d.([]byte)
		return ok && bytes.Equal(db, vb)
	}
	if d == v {
		return true
	}
	return reflect.DeepEqual(d, v)
}

func leBytes(x uint64, n int, dst []byte) []byte {
	dst = dst[:0]
	for j := 0; j < n; j++ {
		dst = append(dst, byte(x>>(8*uint(j))))
	}
	return dst
}

type c15Job struct {
	kind   string // i8 i16 u16 i32 u32 i64 u64 int str16 bytes struct dummy prim
	lo, hi uint64 // integer range [lo,hi) for exhaustive chunks
	stride uint64
	count  int // sample count for random jobs
}

const c15Chunk = 1 << 22

func c15Jobs(tier string) []c15Job {
	var jobs []c15Job
	jobs = append(jobs, c15Job{kind: "i8", lo: 0, hi: 256, stride: 1})
	jobs = append(jobs, c15Job{kind: "i16", lo: 0, hi: 65536, stride: 1})
	jobs = append(jobs, c15Job{kind: "u16", lo: 0, hi: 65536, stride: 1})
	stride := uint64(13)
	if tier == "thorough" {
		stride = 1
	}
	for _, k := range []string{"i32", "u32"} {
		for lo := uint64(0); lo < 1<<32; lo += c15Chunk {
			jobs = append(jobs, c15Job{kind: k, lo: lo, hi: lo + c15Chunk, stride: stride})
		}
	}
	n64 := 64
	per := 40000
	if tier == "thorough" {
		n64 = 256
		per = 400000
	}
	for _, k := range []string{"i64", "u64", "int"} {
		for i := 0; i < n64; i++ {
			jobs = append(jobs, c15Job{kind: k, count: per})
		}
	}
	ns := 64
	if tier == "thorough" {
		ns = 1024
	}
	for i := 0; i < ns; i++ {
		jobs = append(jobs, c15Job{kind: "str16", count: 40})
		jobs = append(jobs, c15Job{kind: "bytes", count: 60})
		jobs = append(jobs, c15Job{kind: "struct", count: 400})
		jobs = append(jobs, c15Job{kind: "prim", count: 400})
	}
	jobs = append(jobs, c15Job{kind: "dummy"})
	return jobs
}

type defB bool
type defI16 int16

// NestedStruct exercises nested arrays and structs in TypeEncoder.
type NestedStruct struct {
	A [2]uint16
	B struct {
		X int8
		Y [3]int32
	}
	C uint64
	D [2][2]uint8
	E bool
}

func refNested(s NestedStruct, be bool) []byte {
	put := func(out []byte, x uint64, n int) []byte {
		for j := 0; j < n; j++ {
			sh := uint(8 * j)
			if be {
				sh = uint(8 * (n - 1 - j))
			}
			out = append(out, byte(x>>sh))
		}
		return out
	}
	var o []byte
	o = put(o, uint64(s.A[0]), 2)
	o = put(o, uint64(s.A[1]), 2)
	o = append(o, byte(s.B.X))
	for _, y := range s.B.Y {
		o = put(o, uint64(uint32(y)), 4)
	}
	o = put(o, s.C, 8)
	o = append(o, s.D[0][0], s.D[0][1], s.D[1][0], s.D[1][1])
	if s.E {
		o = append(o, 1)
	} else {
		o = append(o, 0)
	}
	return o
}

// PadStruct has blank (reserved / padding) fields, as records of on-disk
// formats do: encoding/binary writes them as zero bytes and skips them on read,
// and so must the encoder. A float sits behind an integer field.
type PadStruct struct {
	Kind  uint8
	_     [3]byte
	Off   uint32
	_     uint16
	Score float32
	Tail  int16
}

// PadInts: the same with integer fields only (a record header).
type PadInts struct {
	Kind uint8
	_    [3]byte
	Off  uint32
	_    uint16
	Tail int16
}

func refPad(s PadStruct, be bool) []byte {
	put := func(out []byte, x uint64, n int) []byte {
		for j := 0; j < n; j++ {
			sh := uint(8 * j)
			if be {
				sh = uint(8 * (n - 1 - j))
			}
			out = append(out, byte(x>>sh))
		}
		return out
	}
	o := []byte{s.Kind, 0, 0, 0}
	o = put(o, uint64(s.Off), 4)
	o = append(o, 0, 0)
	o = put(o, uint64(math.Float32bits(s.Score)), 4)
	o = put(o, uint64(uint16(s.Tail)), 2)
	return o
}

// randFixedType builds a random fixed-size type: scalars, arrays and structs
// nested up to depth levels (arrays of padded structs included).
func randFixedType(r *RNG, depth int) reflect.Type {
	scalars := []reflect.Type{reflect.TypeOf(uint8(0)), reflect.TypeOf(int8(0)), reflect.TypeOf(uint16(0)), reflect.TypeOf(int16(0)),
		reflect.TypeOf(uint32(0)), reflect.TypeOf(int32(0)), reflect.TypeOf(uint64(0)), reflect.TypeOf(int64(0)), reflect.TypeOf(false),
		reflect.TypeOf(float32(0)), reflect.TypeOf(float64(0))}
	if depth <= 0 || r.Chance(2, 5) {
		return scalars[r.Intn(len(scalars))]
	}
	if r.Bool() {
		return reflect.ArrayOf(r.Range(1, 4), randFixedType(r, depth-1))
	}
	nf := r.Range(1, 4)
	fields := make([]reflect.StructField, nf)
	for i := range fields {
		fields[i] = reflect.StructField{Name: fmt.Sprintf("F%d", i), Type: randFixedType(r, depth-1)}
	}
	return reflect.StructOf(fields)
}

// fillRandom sets v (addressable) to random content and appends the reference
// encoding: field by field, element by element, each scalar in the given
// byte order.
func fillRandom(r *RNG, v reflect.Value, be bool, out []byte) []byte {
	put := func(x uint64, n int) {
		for j := 0; j < n; j++ {
			sh := uint(8 * j)
			if be {
				sh = uint(8 * (n - 1 - j))
			}
			out = append(out, byte(x>>sh))
		}
	}
	switch v.Kind() {
	case reflect.Struct:
		for i := 0; i < v.NumField(); i++ {
			out = fillRandom(r, v.Field(i), be, out)
		}
	case reflect.Array:
		for i := 0; i < v.Len(); i++ {
			out = fillRandom(r, v.Index(i), be, out)
		}
	case reflect.Bool:
		b := r.Bool()
		v.SetBool(b)
		if b {
			out = append(out, 1)
		} else {
			out = append(out, 0)
		}
	case reflect.Uint8, reflect.Uint16, reflect.Uint32, reflect.Uint64:
		n := int(v.Type().Size())
		x := maskTo(interesting64(r, r.Intn(8)), n)
		v.SetUint(x)
		put(x, n)
	case reflect.Int8, reflect.Int16, reflect.Int32, reflect.Int64:
		n := int(v.Type().Size())
		x := interesting64(r, r.Intn(8))
		// sign-extend from n bytes
		sx := int64(x<<(64-8*uint(n))) >> (64 - 8*uint(n))
		v.SetInt(sx)
		put(uint64(sx), n)
	case reflect.Float32:
		bits := uint32(r.U64())
		if bits&0x7f800000 == 0x7f800000 {
			bits &^= 0x00800000 // no NaN/Inf: NaN != NaN would fail the round-trip comparison
		}
		v.SetFloat(float64(math.Float32frombits(bits)))
		put(uint64(bits), 4)
	case reflect.Float64:
		bits := r.U64()
		if bits&0x7ff0000000000000 == 0x7ff0000000000000 {
			bits &^= 0x0010000000000000
		}
		v.SetFloat(math.Float64frombits(bits))
		put(bits, 8)
	}
	return out
}

func interesting64(r *RNG, i int) uint64 {
	switch i % 8 {
	case 0:
		return uint64(1) << uint(r.Intn(64))
	case 1:
		return (uint64(1) << uint(r.Intn(64))) - 1
	case 2:
		return ^(uint64(1) << uint(r.Intn(64)))
	case 3:
		b := uint64(r.Intn(256))
		return b * 0x0101010101010101
	case 4:
		return uint64(r.Intn(512)) - 256
	case 5:
		return uint64(0x8000000000000000) + uint64(r.Intn(5)) - 2
	}
	return r.U64()
}

func runC15(ctx *Ctx, idx int) {
	jobs := c15Jobs(ctx.Tier)
	j := jobs[idx]
	r := NewRNG(caseSeed(ctx.Seed, "C15", ctx.Tier, idx))
	scratch := make([]byte, 0, 70000)
	ref := make([]byte, 0, 16)
	var nvals int64
	var replayRecs []c15Rec
	fail := func(kind, clause string, v interface{}, ex map[string]interface{}) {
		d := map[string]interface{}{"encoder": kind, "value": show(v)}
		for k, x := range ex {
			d[k] = x
		}
		fp := kind
		if strings.HasPrefix(kind, "TypeEncoder(") && (strings.Contains(kind, "struct {") || strings.Contains(kind, "][") || strings.Contains(kind, "NewTypeEncoder")) {
			fp = "TypeEncoder(random-type)" // the full type is in the detail
		}
		ctx.Violate("C15/"+clause+"/"+fp, d)
	}
	var ptrArgs int64
	chk := func(kind string, e encode.Encoder, v interface{}, ref []byte) bool {
		var clause string
		var ex map[string]interface{}
		pv, stack := try(func() { clause, ex = encOracle(e, v, ref, &scratch) })
		nvals++
		if nvals&0xffff == 0 {
			ctx.Beat()
		}
		if pv != nil {
			fail(kind, "panic", v, map[string]interface{}{"panic": fmt.Sprint(pv), "stack": stack})
			return false
		}
		if clause != "" {
			fail(kind, clause, v, ex)
			return false
		}
		// TypeEncoder.Encode also takes a pointer to the value (binary.Write
		// does): what it returns is the encoding of the value at the time of the
		// call - reusing the variable for the next record must not change it, and
		// writing to it must not reach the variable
		if te, ok := e.(*encode.TypeEncoder); ok && v != nil {
			var clause2 string
			var ex2 map[string]interface{}
			pv2, stack2 := try(func() {
				typ := reflect.TypeOf(v)
				hold := reflect.New(typ)
				hold.Elem().Set(reflect.ValueOf(v))
				enc1 := te.Encode(hold.Interface())
				if !bytes.Equal(enc1, ref) {
					clause2, ex2 = "layout-of-pointer-argument", map[string]interface{}{"got": hex.EncodeToString(enc1), "want": hex.EncodeToString(ref)}
					return
				}
				hold.Elem().Set(reflect.Zero(typ))
				zeroEnc := te.Encode(hold.Interface())
				if !bytes.Equal(enc1, ref) {
					clause2, ex2 = "encoding-changes-when-the-callers-variable-is-reused", map[string]interface{}{"after": hex.EncodeToString(enc1), "want": hex.EncodeToString(ref)}
					return
				}
				for i := range enc1 {
					enc1[i] ^= 0x5a
				}
				if !reflect.DeepEqual(hold.Elem().Interface(), reflect.Zero(typ).Interface()) || !bytes.Equal(te.Encode(hold.Interface()), zeroEnc) {
					clause2, ex2 = "writing-to-an-encoding-changes-the-callers-variable", nil
				}
			})
			if pv2 != nil {
				fail(kind, "panic", v, map[string]interface{}{"panic": fmt.Sprint(pv2), "stack": stack2, "argument": "pointer"})
				return false
			}
			if clause2 != "" {
				fail(kind, clause2, v, ex2)
				return false
			}
			ptrArgs++
		}
		if len(replayRecs) < 48 && (nvals <= 8 || nvals%61 == 0) {
			replayRecs = append(replayRecs, c15Rec{kind, e, v, append([]byte{}, ref...)})
		}
		return true
	}
	defer func() { ctx.Count("typeencoder_values_also_encoded_through_a_pointer", ptrArgs) }()
	defer func() {
		if len(replayRecs) >= 2 && ctx.nviol == 0 {
			if bad, what := concurrentReplay(replayRecs, 4, 30); bad != nil {
				fail(bad.kind, "concurrent-use-of-one-encoder", bad.v, map[string]interface{}{"what": what, "reference": hex.EncodeToString(bad.ref),
					"note": "4 goroutines round-tripping values through the same encoder objects; each result is correct when the call runs alone"})
			}
			ctx.Count("concurrent_replays", 1)
		}
	}()
	ctx.Nontrivial(uint64(idx) + 1)
	switch j.kind {
	case "i8":
		for x := j.lo; x < j.hi; x++ {
			if !chk("I8", encode.I8{}, int8(x), leBytes(x, 1, ref)) {
				break
			}
		}
	case "i16":
		for x := j.lo; x < j.hi; x++ {
			if !chk("I16", encode.I16{}, int16(x), leBytes(x, 2, ref)) {
				break
			}
		}
	case "u16":
		for x := j.lo; x < j.hi; x++ {
			if !chk("U16", encode.U16{}, uint16(x), leBytes(x, 2, ref)) {
				break
			}
		}
	case "i32", "u32":
		start := j.lo
		if j.stride > 1 {
			start += uint64(r.Intn(int(j.stride)))
		}
		var e encode.Encoder = encode.I32{}
		if j.kind == "u32" {
			e = encode.U32{}
		}
		one := func(x uint64) bool {
			if j.kind == "i32" {
				return chk("I32", e, int32(uint32(x)), leBytes(x, 4, ref))
			}
			return chk("U32", e, uint32(x), leBytes(x, 4, ref))
		}
		ok := true
		for x := start; x < j.hi && ok; x += j.stride {
			ok = one(x)
		}
		// chunk boundaries always
		if ok && j.stride > 1 {
			one(j.lo)
			one(j.hi - 1)
		}
		if j.stride == 1 {
			ctx.Count("exhaustive32:"+j.kind, int64(j.hi-j.lo))
		}
	case "i64", "u64", "int":
		for i := 0; i < j.count; i++ {
			x := interesting64(r, i)
			ok := true
			switch j.kind {
			case "i64":
				ok = chk("I64", encode.I64{}, int64(x), leBytes(x, 8, ref))
			case "u64":
				ok = chk("U64", encode.U64{}, x, leBytes(x, 8, ref))
			case "int":
				ok = chk("Int", encode.Int{}, int(x), leBytes(x, bits.UintSize/8, ref))
			}
			if !ok {
				break
			}
		}
	case "str16":
		lens := []int{0, 1, 2, 127, 128, 255, 256, 257, 65534, 65535}
		for i := 0; i < j.count; i++ {
			l := lens[(i+idx)%len(lens)]
			if i >= len(lens) {
				l = r.Intn(1 << uint(r.Range(1, 16)))
			}
			var s string
			switch r.Intn(3) {
			case 0:
				s = string(r.Bytes(l))
			case 1:
				s = strings.Repeat("\x00", l)
			default:
				s = strings.Repeat("\xff", l)
			}
			rf := append([]byte{byte(l >> 8), byte(l)}, s...)
			ctx.Count(fmt.Sprintf("str16:lenclass_%d", bits.Len(uint(l))), 1)
			if !chk("String16", encode.String16{}, s, rf) {
				break
			}
		}
	case "bytes":
		for i := 0; i < j.count; i++ {
			n := []int{0, 1, 2, 3, 4, 7, 8, 9, 16, 255, 256, 1000, 4096}[(i+idx)%13]
			if i >= 13 {
				n = r.Intn(4097)
			}
			b := r.Bytes(n)
			ctx.Count(fmt.Sprintf("bytes:sizeclass_%d", bits.Len(uint(n))), 1)
			if !chk(fmt.Sprintf("Bytes{%d}", n), encode.Bytes{Size: n}, b, b) {
				break
			}
		}
	case "struct":
		for _, be := range []bool{false, true} {
			var order binary.ByteOrder = binary.LittleEndian
			name := "TypeEncoder(LE)"
			if be {
				order = binary.BigEndian
				name = "TypeEncoder(BE)"
			}
			e1, err1 := encode.NewTypeEncoderEndian(TStruct{}, order)
			e2, err2 := encode.NewTypeEncoderEndian(NestedStruct{}, order)
			e3, err3 := encode.NewTypeEncoderEndian(PadStruct{}, order)
			e4, err4 := encode.NewTypeEncoderEndian(PadInts{}, order)
			if err1 != nil || err2 != nil || err3 != nil || err4 != nil {
				fail(name, "constructor-error", nil, map[string]interface{}{"error": fmt.Sprint(err1, err2, err3, err4)})
				return
			}
			for i := 0; i < j.count/2; i++ {
				x := interesting64(r, i)
				s := structOf(int64(x))
				if !chk(name+"/TStruct", e1, s, refStruct(s, be)) {
					break
				}
				y := r.U64()
				ns := NestedStruct{A: [2]uint16{uint16(x), uint16(y)}, C: y ^ x, E: x&1 == 1}
				ns.B.X = int8(y >> 8)
				ns.B.Y = [3]int32{int32(x >> 3), int32(y >> 5), int32(x ^ y)}
				ns.D = [2][2]uint8{{uint8(x), uint8(x >> 8)}, {uint8(y), uint8(y >> 8)}}
				if !chk(name+"/Nested", e2, ns, refNested(ns, be)) {
					break
				}
				ps := PadStruct{Kind: uint8(x), Off: uint32(y >> 3), Score: float32(int32(x>>9)) / 16, Tail: int16(y >> 40)}
				if !chk(name+"/Padded", e3, ps, refPad(ps, be)) {
					break
				}
				pi := PadInts{Kind: ps.Kind, Off: ps.Off, Tail: ps.Tail}
				rp := refPad(ps, be)
				if !chk(name+"/PaddedInts", e4, pi, append(append([]byte{}, rp[:10]...), rp[14:]...)) {
					break
				}
				ctx.Count("struct_values_with_blank_fields", 1)
			}
		}
		// random fixed-size types: nested arrays and structs, arrays of padded
		// structs, both byte orders, all three constructors
		for t := 0; t < j.count/8; t++ {
			typ := randFixedType(r, 3)
			be := t%2 == 1
			var order binary.ByteOrder = binary.LittleEndian
			if be {
				order = binary.BigEndian
			}
			val := reflect.New(typ).Elem()
			ref := fillRandom(r, val, be, nil)
			var e *encode.TypeEncoder
			var err error
			how := "NewTypeEncoderEndian"
			// Endian, Type and Size are exported, documented fields: an encoder
			// may also be written as a literal, or have its byte order assigned
			// after construction (on the object or on a by-value copy of it)
			var other binary.ByteOrder = binary.BigEndian
			if be {
				other = binary.LittleEndian
			}
			switch (t / 2) % 6 {
			case 0:
				e, err = encode.NewTypeEncoderEndian(val.Interface(), order)
			case 1:
				how = "NewTypeEncoderEndianByType"
				e, err = encode.NewTypeEncoderEndianByType(typ, order)
			case 2:
				how = "NewTypeEncoderEndian(pointer)"
				e, err = encode.NewTypeEncoderEndian(val.Addr().Interface(), order)
			case 3:
				how = "struct literal"
				e = &encode.TypeEncoder{Endian: order, Type: typ, Size: binary.Size(val.Interface())}
			case 4:
				how = "Endian assigned after construction"
				e, err = encode.NewTypeEncoderEndian(val.Interface(), other)
				if err == nil {
					e.Encode(val.Interface())
					e.Endian = order
				}
			case 5:
				how = "by-value copy with another Endian"
				var e0 *encode.TypeEncoder
				e0, err = encode.NewTypeEncoderEndianByType(typ, other)
				if err == nil {
					c := *e0
					c.Endian = order
					e = &c
					// the original keeps its own order
					val0 := reflect.New(typ).Elem()
					ref0 := fillRandom(r, val0, !be, nil)
					if !chk(fmt.Sprintf("TypeEncoder(%s,be=%v,original of a copied encoder)", typ.String(), !be), e0, val0.Interface(), ref0) {
						break
					}
				}
			}
			ctx.Count("typeencoder_made_by:"+how, 1)
			if err != nil {
				fail("TypeEncoder(random type)", "constructor-error", nil, map[string]interface{}{"type": typ.String(), "how": how, "error": err.Error()})
				break
			}
			ctx.Count("random_struct_types", 1)
			if typ.Kind() == reflect.Array && typ.Elem().Kind() == reflect.Struct && int(typ.Size()) != len(ref) {
				ctx.Count("random_types:array_of_padded_structs", 1)
			}
			if !chk(fmt.Sprintf("TypeEncoder(%s,be=%v,%s)", typ.String(), be, how), e, val.Interface(), ref) {
				break
			}
		}
		// default constructor = little endian
		e, err := encode.NewTypeEncoder(TStruct{})
		if err != nil {
			fail("TypeEncoder(default)", "constructor-error", nil, map[string]interface{}{"error": err.Error()})
		} else {
			s := structOf(int64(r.U64()))
			chk("TypeEncoder(default)/TStruct", e, s, refStruct(s, false))
		}
	case "prim":
		// TypeEncoder over primitive fixed-size types, both orders
		for i := 0; i < j.count; i++ {
			x := interesting64(r, i)
			be := i%2 == 1
			var order binary.ByteOrder = binary.LittleEndian
			if be {
				order = binary.BigEndian
			}
			put := func(n int) []byte {
				b := make([]byte, n)
				for k := 0; k < n; k++ {
					sh := uint(8 * k)
					if be {
						sh = uint(8 * (n - 1 - k))
					}
					b[k] = byte(x >> sh)
				}
				return b
			}
			var v interface{}
			var rf []byte
			switch i / 2 % 8 {
			case 6:
				// top-level byte arrays (digests, fixed-size ids): the same bytes in
				// either byte order
				a := [16]byte{}
				for k := range a {
					a[k] = byte(x >> uint(8*(k%8)))
					if k >= 8 {
						a[k] ^= byte(k * 37)
					}
				}
				v, rf = a, append([]byte{}, a[:]...)
			case 7:
				a := [3]uint8{byte(x), byte(x >> 8), byte(x >> 16)}
				v, rf = a, append([]byte{}, a[:]...)
			case 0:
				v, rf = uint8(x), put(1)
			case 1:
				v, rf = int16(x), put(2)
			case 2:
				v, rf = uint32(x), put(4)
			case 3:
				v, rf = int64(x), put(8)
			case 4:
				v, rf = [2]uint16{uint16(x), uint16(x >> 16)}, nil
				a := v.([2]uint16)
				save := x
				x = uint64(a[0])
				rf = append(rf, put(2)...)
				x = uint64(a[1])
				rf = append(rf, put(2)...)
				x = save
			case 5:
				v, rf = uint16(x), put(2)
			}
			// defined (named) scalar and array types every third time
			if i%3 == 2 && i/2%8 < 6 {
				switch i / 2 % 8 {
				case 0:
					v, rf = defB(x&1 == 1), []byte{byte(x & 1)}
				case 1:
					v, rf = defI16(x), put(2)
				case 2:
					v, rf = defU32(x), put(4)
				case 3:
					v, rf = defOff(x), put(8)
				case 4:
					v = defArr{uint16(x), uint16(x >> 16)}
				case 5:
					v, rf = defU16(x), put(2)
				}
				ctx.Count("values:defined_types", 1)
			}
			e, err := encode.NewTypeEncoderEndian(v, order)
			if err != nil {
				fail("TypeEncoder(prim)", "constructor-error", v, map[string]interface{}{"error": err.Error()})
				break
			}
			if !chk(fmt.Sprintf("TypeEncoder(%T,be=%v)", v, be), e, v, rf) {
				break
			}
		}
	case "dummy":
		chk("Dummy", encode.Dummy{}, nil, []byte{})
	}
	ctx.Count("values:"+j.kind, nvals)
	ctx.Count("evaluations", nvals)
	if ctx.WantSample() && (j.kind == "str16" || j.kind == "i64" || j.kind == "struct") {
		s := structOf(-2)
		ctx.Sample(map[string]interface{}{"job": j.kind, "example_value": fmt.Sprintf("%+v", s), "example_reference_LE": hex.EncodeToString(refStruct(s, false)), "example_reference_BE": hex.EncodeToString(refStruct(s, true))})
	}
}

func init() {
	register(&CheckDef{
		ID: "C15", Level: "exploration",
		Rule:     "case = one value of one encoder; oracle: Encode(v) equals an independent reference layout (shift-and-mask little endian; big-endian 16-bit length + bytes for String16; field walk in the configured order for TypeEncoder), Decode(Encode(v)) == v consuming len(Encode(v)) == GetSize(v) == GetEncodedSize(Encode(v)), the same with 9 unrelated bytes appended; I8/I16/U16 exhaustive in both tiers, I32/U32 every 13th value with random phase plus chunk boundaries (quick) or all 2^32 values (thorough), 64-bit and native int: single-bit, all-ones-below, byte-pattern, around 0 and MinInt64, random; String16 length classes 0..65535; Bytes sizes 0..4096; TypeEncoder over a flat struct, a nested struct, primitives and randomly generated fixed-size types (reflect.StructOf/ArrayOf: nested arrays and structs, arrays of padded structs, floats, bools) in both byte orders through all three constructors, as a struct literal, with Endian assigned after construction and on a by-value copy; Dummy on nil; distinct_nontrivial counts work items (value ranges / sample batches), evaluations counts values",
		NumCases: func(tier string) int { return len(c15Jobs(tier)) },
		Run:      runC15,
		MinNontrivial: func(tier string) int {
			return 100
		},
		Gates: func(tier string, m *Merged) []string {
			var missed []string
			if m.C("values:i8") != 256 || m.C("values:i16") != 65536 || m.C("values:u16") != 65536 {
				missed = append(missed, "8/16-bit exhaustive")
			}
			if tier == "thorough" && (m.C("exhaustive32:i32") != 1<<32 || m.C("exhaustive32:u32") != 1<<32) {
				missed = append(missed, "32-bit exhaustive")
			}
			for _, g := range []string{"values:i32", "values:u32", "values:i64", "values:u64", "values:int", "values:str16", "values:bytes", "values:struct", "values:prim", "values:dummy", "values:defined_types", "random_struct_types", "random_types:array_of_padded_structs", "typeencoder_made_by:struct literal", "struct_values_with_blank_fields", "typeencoder_values_also_encoded_through_a_pointer", "typeencoder_made_by:Endian assigned after construction", "typeencoder_made_by:by-value copy with another Endian", "str16:lenclass_16", "str16:lenclass_0", "bytes:sizeclass_0", "bytes:sizeclass_13"} {
				if m.C(g) == 0 {
					missed = append(missed, g)
				}
			}
			return missed
		},
		Exhaustive:  func(tier string) bool { return false },
		Assumptions: []string{"reference layouts written from the property statement, independent of encoding/binary for integers", "native int is 64-bit on this platform (bits.UintSize)"},
		Finish: func(tier string, m *Merged, cov map[string]interface{}) {
			cov["exhaustive_parts"] = map[string]interface{}{"I8": m.C("values:i8") == 256, "I16": m.C("values:i16") == 65536, "U16": m.C("values:u16") == 65536,
				"I32": m.C("exhaustive32:i32") == 1<<32, "U32": m.C("exhaustive32:u32") == 1<<32}
		},
	})
}
