package main

import (
	"sort"
	"strings"
)

// KeySet is a generated, strictly ascending key list with the name of the
// shape family that produced it.
type KeySet struct {
	Family string
	Keys   []string
}

var alphaPool = []byte{0x00, 0x01, 0x0f, 0x10, 0x11, 0x7f, 0x80, 0xf0, 0xfe, 0xff, 'a', 'b'}

func randAlphabet(r *RNG, lo, hi int) []byte {
	n := r.Range(lo, hi)
	p := r.Perm(len(alphaPool))
	a := make([]byte, n)
	for i := range a {
		a[i] = alphaPool[p[i%len(p)]]
	}
	return a
}

func randOver(r *RNG, alpha []byte, l int) string {
	b := make([]byte, l)
	for i := range b {
		b[i] = alpha[r.Intn(len(alpha))]
	}
	return string(b)
}

// genSmallAlpha: 1-60 keys, length 0-6 over a tiny alphabet: keys that are
// prefixes of others, the empty key, both nibbles, bytes >= 0x80.
func genSmallAlpha(r *RNG) []string {
	alpha := randAlphabet(r, 2, 7)
	n := r.Range(1, 60)
	maxLen := r.Range(1, 6)
	ks := make([]string, 0, n)
	for i := 0; i < n; i++ {
		ks = append(ks, randOver(r, alpha, r.Range(0, maxLen)))
	}
	return sortUniq(ks)
}

// genUniform: random bytes; fixed or variable length.
func genUniform(r *RNG, maxN int) []string {
	n := r.Range(2, maxN)
	if r.Chance(1, 2) {
		n = r.Range(2, 1+maxN/10)
	}
	fixed := r.Bool()
	l := r.Range(1, 12)
	// enough entropy for n keys
	for l < 8 && (1<<(8*uint(l))) < n*2 {
		l++
	}
	ks := make([]string, 0, n)
	for i := 0; i < n; i++ {
		ll := l
		if !fixed {
			ll = r.Range(0, l)
		}
		ks = append(ks, string(r.Bytes(ll)))
	}
	return sortUniq(ks)
}

// genNibbleDense: keys over a restricted byte set so that 4-bit nodes with many
// different label sets appear at many depths.
func genNibbleDense(r *RNG, maxN int) []string {
	n := r.Range(2, maxN)
	nb := r.Range(2, 24)
	pool := r.Bytes(nb)
	l := r.Range(2, 7)
	ks := make([]string, 0, n)
	for i := 0; i < n; i++ {
		ks = append(ks, randOver(r, pool, r.Range(1, l)))
	}
	return sortUniq(ks)
}

// withPrefix prepends a common prefix; half=true makes the branch point sit
// inside a byte (the first byte after the prefix shares its high nibble).
func withPrefix(r *RNG, ks []string, plen int, half bool) []string {
	p := string(r.Bytes(plen))
	if r.Chance(1, 4) {
		p = strings.Repeat("\xff", plen)
	} else if r.Chance(1, 4) {
		p = strings.Repeat("\x00", plen)
	}
	out := make([]string, 0, len(ks))
	if half {
		hi := byte(r.Intn(16)) << 4
		for _, k := range ks {
			// map the first byte of k to a byte with a fixed high nibble;
			// keep order: use (hi | firstbyte>>4) then the rest shifted in.
			if len(k) == 0 {
				out = append(out, p)
				continue
			}
			b := []byte(k)
			nb := make([]byte, 0, len(b)+1)
			nb = append(nb, hi|b[0]>>4)
			nb = append(nb, b[0]<<4)
			nb = append(nb, b[1:]...)
			out = append(out, p+string(nb))
		}
		return sortUniq(out)
	}
	for _, k := range ks {
		out = append(out, p+k)
	}
	return out // order preserved, still unique
}

func pickPrefixLen(r *RNG, long bool) int {
	switch r.Intn(8) {
	case 0:
		return 1
	case 1:
		return r.Range(2, 7)
	case 2:
		return r.Range(7, 9)
	case 3:
		return r.Range(10, 40)
	case 4:
		return r.Range(120, 135) // 256 half-bytes boundary
	case 5:
		return r.Range(100, 300)
	case 6:
		if long {
			return r.Range(4000, 16000)
		}
		return r.Range(300, 600)
	}
	return r.Range(1, 20)
}

// genFanout: byte-level fan-out of exactly k at depth 1..3.
func genFanout(r *RNG, k, depth, maxKeys int) []string {
	var rec func(prefix string, d int, out *[]string)
	rec = func(prefix string, d int, out *[]string) {
		p := r.Perm(256)[:k]
		sort.Ints(p)
		for _, b := range p {
			s := prefix + string([]byte{byte(b)})
			if d+1 >= depth || len(*out) > maxKeys {
				*out = append(*out, s)
			} else {
				if r.Chance(1, 5) {
					*out = append(*out, s) // key ending at an inner node
				}
				rec(s, d+1, out)
			}
		}
	}
	var out []string
	rec("", 0, &out)
	return sortUniq(out)
}

// genRepeats: m distinct nibble-label suffix sets replicated under many
// parents; steers the builder's short-node table.
func genRepeats(r *RNG, parents, m, maxLabels int) []string {
	// suffix sets: each is a set of 1..maxLabels single bytes sharing the
	// high nibble (so the set is a 4-bit label set at the low nibble).
	type sset [][]byte
	sets := make([]sset, m)
	for i := range sets {
		nl := r.Range(1, maxLabels)
		hi := byte(r.Intn(16)) << 4
		p := r.Perm(16)[:nl]
		sort.Ints(p)
		for _, lo := range p {
			sets[i] = append(sets[i], []byte{hi | byte(lo)})
		}
		if r.Chance(1, 4) {
			// add the end-of-key label
			sets[i] = append(sset{[]byte{}}, sets[i]...)
		}
	}
	plen := r.Range(2, 3)
	seen := map[string]bool{}
	var out []string
	for len(seen) < parents {
		p := string(r.Bytes(plen))
		if seen[p] {
			continue
		}
		seen[p] = true
		s := sets[r.Intn(m)]
		if len(s) == 1 {
			// a single label gives a leaf, not a node; extend
			out = append(out, p+string(s[0]), p+string(s[0])+"\x01")
			continue
		}
		for _, suf := range s {
			out = append(out, p+string(suf))
		}
	}
	return sortUniq(out)
}

// genSteerShort steers the builder's short-node table to exactly s bits
// (8..10): below a dense two-byte prefix space (byte-wide nodes, which do not
// enter the statistics) every parent carries one 4-bit node whose label set is
// one of the first C(s,k) k-subsets of the 16 low nibbles, k = 2..4, each set
// used `uses` times. With that many equally frequent bitmaps per label count
// the cost model can only map them all at table size s. Measured on the
// pinned tree: s=8 from 10 080 keys (uses 20), s=9 from 24 840 (30), s=10 from
// 64 500 (50).
func genSteerShort(s, uses int) []string {
	var out []string
	pi := 0
	for k := 2; k <= 4; k++ {
		var sets [][]int
		var rec func(start int, cur []int)
		rec = func(start int, cur []int) {
			if len(cur) == k {
				sets = append(sets, append([]int{}, cur...))
				return
			}
			for i := start; i < 16; i++ {
				rec(i+1, append(cur, i))
			}
		}
		rec(0, nil)
		cnt := 1
		for i := 0; i < k; i++ { // C(s,k)
			cnt = cnt * (s - i) / (i + 1)
		}
		for si := 0; si < cnt && si < len(sets); si++ {
			for u := 0; u < uses; u++ {
				p := string([]byte{byte(pi >> 8), byte(pi)})
				pi++
				hi := byte((si+u)%16) << 4
				for _, lo := range sets[si] {
					out = append(out, p+string([]byte{hi | byte(lo)}))
				}
			}
		}
	}
	return sortUniq(out)
}

// genDeep: caterpillars / prefix chains.
func genDeep(r *RNG, depth int) []string { return genDeepStyle(r, depth, r.Intn(4)) }

func genDeepStyle(r *RNG, depth int, style int) []string {
	var out []string
	switch style {
	case 0: // prefix chain: every key is a prefix of the next
		c := randAlphabet(r, 1, 3)
		s := ""
		for i := 0; i < depth; i++ {
			out = append(out, s)
			s += string([]byte{c[r.Intn(len(c))]})
		}
	case 1: // binary caterpillar at byte level
		a, b := byte(r.Intn(128)), byte(128+r.Intn(128))
		s := ""
		for i := 0; i < depth; i++ {
			out = append(out, s+string([]byte{b}))
			s += string([]byte{a})
		}
		out = append(out, s)
	case 2: // caterpillar at nibble level: spine continues in the low nibble
		s := ""
		for i := 0; i < depth; i++ {
			out = append(out, s+"\x1f")
			out = append(out, s+"\x21")
			s += "\x12"
		}
	case 3: // spine with random steps between the legs
		s := ""
		for i := 0; i < depth; i++ {
			out = append(out, s+"\xf0")
			s += "\x10" + string(r.Bytes(r.Intn(4)))
		}
		out = append(out, s)
	}
	return sortUniq(out)
}

// genLong: 2-12 keys with long single-branch runs; lengths swept across the
// 256 / 4096 half-byte boundaries; maxLen bounds key length.
func genLong(r *RNG, maxLen int) []string {
	n := r.Range(2, 12)
	var out []string
	base := ""
	for len(out) < n {
		run := 0
		switch r.Intn(7) {
		case 0:
			run = r.Range(126, 130) // 255/256 half-bytes
		case 1:
			run = r.Range(2046, 2050) // 4095/4096 half-bytes
		case 2:
			run = r.Range(1, 64)
		case 3:
			run = r.Range(200, 5000)
		case 4:
			run = r.Range(8000, 16000)
		default:
			run = r.Range(0, 300)
		}
		if len(base)+run+2 > maxLen {
			run = maxLen - len(base) - 2
			if run < 0 {
				break
			}
		}
		seg := string(r.Bytes(run))
		if r.Chance(1, 3) {
			seg = strings.Repeat(string([]byte{byte(r.Intn(256))}), run)
		}
		// two or three keys diverging after the run
		b := r.Perm(256)[:3]
		sort.Ints(b)
		out = append(out, base+seg+string([]byte{byte(b[0])}))
		if r.Bool() {
			out = append(out, base+seg+string([]byte{byte(b[1])})+string(r.Bytes(r.Intn(3))))
		}
		base = base + seg + string([]byte{byte(b[2])})
		if r.Chance(1, 3) {
			// half-byte divergence
			out = append(out, base+"\x40")
			base += "\x41"
		}
	}
	out = append(out, base)
	kept := out[:0]
	for _, k := range out {
		if len(k) <= maxLen {
			kept = append(kept, k)
		}
	}
	return sortUniq(kept)
}

// genDenseAlpha: (nearly) all strings of length d over an alphabet of a bytes,
// a in 11..16: every node down to depth d-1 sees more than 10 labels, so the
// breadth-first prefix of 257-bit nodes is long (a^0 + ... + a^(d-1) nodes:
// 273 for a=16,d=3; 4369 for a=16,d=4).
func genDenseAlpha(r *RNG, a, d int, dropPermille int) []string {
	if a < 14 {
		// a node that loses labels down to 10 ends the breadth-first run of
		// 257-bit nodes for good: only drop keys when there is slack
		dropPermille = 0
	} else if dropPermille > 30 {
		dropPermille = 30
	}
	p := r.Perm(256)[:a]
	sort.Ints(p)
	alpha := make([]byte, a)
	for i, x := range p {
		alpha[i] = byte(x)
	}
	if r.Chance(1, 3) {
		// make sure 0x00 and 0xff are labels of the big nodes
		alpha[0], alpha[a-1] = 0x00, 0xff
	}
	var out []string
	var rec func(prefix []byte, depth int)
	rec = func(prefix []byte, depth int) {
		if depth == d {
			if r.Intn(1000) >= dropPermille {
				out = append(out, string(prefix))
			}
			return
		}
		for _, c := range alpha {
			rec(append(prefix, c), depth+1)
		}
	}
	rec(nil, 0)
	return sortUniq(out)
}

// genLongTail: keys that differ early and carry long tails behind the last
// branch point (tails are what a leaf prefix stores): lengths around 32 and 64,
// ASCII, random bytes, valid multi-byte UTF-8 and stray high bytes.
func genLongTail(r *RNG) []string {
	n := r.Range(2, 120)
	utf := []string{"é", "ü", "日本語", "Ω", "😀", "caf\xc3\xa9", "\xc3\x28", "\xe2\x82", "\xff\xfe"}
	var out []string
	for i := 0; i < n; i++ {
		head := string(r.Bytes(r.Range(1, 3)))
		tl := []int{0, 1, 2, 7, 8, 9, 31, 32, 33, 34, 40, 63, 64, 65, 100, 200, 300}[r.Intn(17)]
		var tail []byte
		switch r.Intn(4) {
		case 0:
			tail = r.Bytes(tl)
		case 1:
			for len(tail) < tl {
				tail = append(tail, byte('a'+r.Intn(26)))
			}
		case 2:
			for len(tail) < tl {
				tail = append(tail, utf[r.Intn(len(utf))]...)
			}
		default:
			for len(tail) < tl {
				tail = append(tail, byte('a'+r.Intn(26)))
			}
			if tl > 0 {
				tail[r.Intn(len(tail))] = byte(0x80 + r.Intn(0x80))
			}
		}
		out = append(out, head+string(tail))
		if r.Chance(1, 5) {
			// a sibling sharing the whole tail except the last byte
			t2 := append([]byte{}, tail...)
			if len(t2) > 0 {
				t2[len(t2)-1] ^= 0x01
				out = append(out, head+string(t2))
			}
		}
	}
	return sortUniq(out)
}

// genDecimal: zero-padded decimal numbers (optionally behind a textual
// prefix): every node sees the same 8-10 low-nibble labels, the most common
// key shape in practice.
func genDecimal(r *RNG, maxN int) []string {
	w := r.Range(2, 8)
	n := r.Range(10, maxN)
	lim := 1
	for i := 0; i < w; i++ {
		lim *= 10
	}
	step := r.Range(1, 7)
	if n*step > lim {
		n = lim / step
	}
	pre := []string{"", "", "user-", "k", "2024-"}[r.Intn(5)]
	base := r.Intn(10)
	out := make([]string, 0, n)
	for i := 0; i < n; i++ {
		s := []byte(pre)
		x := i * step
		d := make([]byte, w)
		for j := w - 1; j >= 0; j-- {
			d[j] = byte('0' + x%10)
			x /= 10
		}
		if base < 3 {
			// digits 0-7 or 0-8 only: 8 or 9 labels
			for j := range d {
				if int(d[j]-'0') > 6+base {
					d[j] = byte('0' + 6 + base)
				}
			}
		}
		out = append(out, string(append(s, d...)))
	}
	return sortUniq(out)
}

// genKeySet picks a family by PRNG. scale: 0 quick, 1 thorough, 2 = race pass
// (small).
func genKeySet(r *RNG, scale int) KeySet {
	maxUniform := 3000
	maxDeep := 300
	if scale == 1 {
		maxUniform = 30000
		maxDeep = 2000
	} else if scale == 2 {
		maxUniform = 600
		maxDeep = 120
	}
	var ks KeySet
	switch f := r.Intn(20); {
	case f < 5:
		ks = KeySet{"small-alpha", genSmallAlpha(r)}
	case f < 8:
		ks = KeySet{"uniform", genUniform(r, maxUniform)}
	case f < 10:
		ks = KeySet{"nibble-dense", genNibbleDense(r, maxUniform)}
	case f < 12:
		kk := []int{2, 9, 10, 11, 12, 16, 17, 40, 255, 256}
		k := kk[r.Intn(len(kk))]
		depth := r.Range(1, 3)
		if k >= 40 && depth > 2 {
			depth = 2
		}
		ks = KeySet{"fanout", genFanout(r, k, depth, maxUniform)}
	case f < 15:
		parents := r.Range(20, 400)
		if scale == 1 && r.Chance(1, 4) {
			parents = r.Range(400, 4000)
		}
		ks = KeySet{"repeats", genRepeats(r, parents, r.Range(1, 12), r.Range(2, 5))}
	case f < 16:
		if r.Chance(1, 3) && scale != 2 {
			a := r.Range(11, 16)
			ks = KeySet{"dense-alpha", genDenseAlpha(r, a, 3, r.Intn(100))}
		} else {
			ks = KeySet{"deep", genDeep(r, r.Range(3, maxDeep))}
		}
	case f < 18:
		maxLen := 2000
		if r.Chance(1, 4) {
			maxLen = 16384
		}
		ks = KeySet{"long", genLong(r, maxLen)}
	case f < 19:
		if r.Bool() {
			ks = KeySet{"long-tail", genLongTail(r)}
		} else {
			ks = KeySet{"decimal", genDecimal(r, maxUniform)}
		}
	default:
		ks = KeySet{"small-alpha", genSmallAlpha(r)}
	}
	// prefixed variants
	if r.Chance(1, 4) && len(ks.Keys) > 0 {
		plen := pickPrefixLen(r, scale == 1)
		maxk := 0
		for _, k := range ks.Keys {
			if len(k) > maxk {
				maxk = len(k)
			}
		}
		if plen+maxk+1 <= 16384 {
			ks.Keys = withPrefix(r, ks.Keys, plen, r.Chance(1, 3))
			ks.Family = "prefixed+" + ks.Family
		}
	}
	return ks
}

// ---- directed corpus (runs at every seed) ---------------------------------

func rep(s string, n int) string { return strings.Repeat(s, n) }

func directedKeySets() []KeySet {
	var out []KeySet
	add := func(name string, ks ...string) {
		out = append(out, KeySet{"directed:" + name, sortUniq(append([]string{}, ks...))})
	}
	add("empty")
	add("single-empty", "")
	add("single-1", "a")
	add("single-16k", rep("k", 16384))
	add("empty-and-x", "", "x")
	add("last-bit", "a\x00", "a\x01")
	add("first-bit", "\x00a", "\x80a")
	add("hi-lo-nibble", "\x10", "\x11", "\x20")
	add("ext-00-ff", "ab", "ab\x00", "ab\xff")
	add("repo-8", "abc", "abcd", "abd", "abde", "bc", "bcd", "bcde", "cde")
	var b256, b10, b11, b12 []string
	for i := 0; i < 256; i++ {
		b256 = append(b256, string([]byte{byte(i)}))
		if i < 10 {
			b10 = append(b10, string([]byte{byte(i * 17)}))
		}
		if i < 11 {
			b11 = append(b11, string([]byte{byte(i * 17)}))
		}
		if i < 12 {
			b12 = append(b12, string([]byte{byte(i * 17)}))
		}
	}
	add("256-bytes", b256...)
	add("10-bytes", b10...)
	add("11-bytes", b11...)
	add("12-bytes", b12...)
	// 257-bit node below a 257-bit node
	var two []string
	for i := 0; i < 12; i++ {
		for j := 0; j < 12; j++ {
			two = append(two, string([]byte{byte(i * 20), byte(j*21 + 1)}))
		}
	}
	add("big-below-big", two...)
	// stored step >= 256 half-bytes at the root and at an inner node
	add("step256-root", rep("p", 128)+"a", rep("p", 128)+"b")
	add("step256-inner", "a"+rep("q", 130)+"1", "a"+rep("q", 130)+"2", "b", "c"+rep("r", 129)+"\x10", "c"+rep("r", 129)+"\x11")
	add("step-4095", rep("z", 2047)+"\x10", rep("z", 2047)+"\x1f", rep("z", 2047)+"\x20")
	add("f3-within-limit", "a"+rep("x", 16000)+"1", "a"+rep("x", 16000)+"2", "b")
	add("ff-prefix-half", "\xff\xff\xf0", "\xff\xff\xf1", "\xff\xff\xff")
	add("prefix-chain", "", "a", "aa", "aaa", "aaaa", "aaaaa")
	// a 17-bit node with all 17 labels: a key ends at it and all 16 nibbles branch
	full := []string{"a", "k"}
	// ... and the same below a byte-wide root (a key can only end on a byte
	// boundary, so the 17 labels are the end label and the 16 high nibbles)
	full2 := []string{}
	for i := 0; i < 16; i++ {
		full = append(full, "k"+string([]byte{byte(i << 4)}))
		full2 = append(full2, "\x50"+string([]byte{byte(i<<4) | byte(i)}))
		if i < 12 {
			full2 = append(full2, string([]byte{byte(0x60 + i)}))
		}
	}
	full2 = append(full2, "\x50")
	add("full-17-label-node", full...)
	add("full-17-label-node-below-byte-node", full2...)
	// more than 1024 levels
	chain := make([]string, 0, 1500)
	for i := 1; i <= 1500; i++ {
		chain = append(chain, rep("a", i))
	}
	add("deep-chain-1500", chain...)
	// three levels of byte-wide nodes with leaves sitting among the inner nodes
	// of the upper levels (level tables, rank arithmetic inside the big region)
	tri := []string{"0", "5", "zz", "b0"}
	for x := 0; x < 11; x++ {
		for y := 0; y < 11; y++ {
			for z := 0; z < 11; z++ {
				tri = append(tri, string([]byte{byte('a' + x), byte('a' + y), byte('a' + z)}))
			}
		}
	}
	add("three-big-levels-with-early-leaves", tri...)
	return out
}
