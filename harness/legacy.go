package main

import (
	"bytes"
	"encoding/binary"
	"fmt"
	"io/ioutil"
	"math/bits"
	"os"
	"strings"

	"github.com/golang/protobuf/proto"
	"github.com/openacid/low/bitmap"
	"github.com/openacid/low/pbcmpl"
	"github.com/openacid/slim/array"
	"github.com/openacid/slim/encode"
	"github.com/openacid/slim/trie"
	"github.com/openacid/testkeys"
)

// Writers for the historical on-disk layouts. The repository contains no old
// writer; these are models reconstructed from the loader and validated against
// the archived fixtures in /repo/trie/testdata (see validateBuildOld,
// validateDowngrade).

// ---- three-section layouts (0.5.0 - 0.5.9) ---------------------------------

func nibblesOf(k string) []byte {
	r := make([]byte, 0, len(k)*2)
	for i := 0; i < len(k); i++ {
		r = append(r, k[i]>>4, k[i]&0xf)
	}
	return r
}

type oldTrie struct {
	childIdx []int32
	childBM  []uint16
	childOff []int32 // first child id
	stepIdx  []int32
	stepVal  []uint16
	leafIdx  []int32
	leafVal  [][]byte
	nodeCnt  int32
	// maxStep is the largest step the writer needed; the historical writer
	// could not encode steps > 65535
	maxStep int32
}

type oldSubset struct{ s, e, from int32 }

// buildOld replicates the <0.5.10 construction: nibble trie, breadth-first
// ids, inner-and-leaf nodes, labels from retained keys only, step = skipped
// half-bytes + 1. keep[i] says whether entry i is retained. leafSteps: the
// 0.5.0 style that also stores steps on leaves.
func buildOld(keys []string, encVals [][]byte, keep []bool, leafSteps bool) *oldTrie {
	n := len(keys)
	t := &oldTrie{}
	if n == 0 {
		return t
	}
	ks := make([][]byte, n)
	for i, k := range keys {
		ks[i] = nibblesOf(k)
	}
	queue := []oldSubset{{0, int32(n), 0}}
	for i := 0; i < len(queue); i++ {
		nid := int32(i)
		o := queue[i]
		s, e := o.s, o.e
		if e-s == 1 {
			if keep[s] {
				t.leafIdx = append(t.leafIdx, nid)
				t.leafVal = append(t.leafVal, encVals[s])
			}
			if leafSteps {
				step := int32(len(ks[s])) - o.from + 1
				if step > 1 {
					t.stepIdx = append(t.stepIdx, nid)
					t.stepVal = append(t.stepVal, uint16(step))
					if step > t.maxStep {
						t.maxStep = step
					}
				}
			}
			continue
		}
		// common prefix from o.from
		prefI := o.from
		for {
			if int(prefI) >= len(ks[s]) {
				break
			}
			c := ks[s][prefI]
			same := true
			for j := s + 1; j < e; j++ {
				if int(prefI) >= len(ks[j]) || ks[j][prefI] != c {
					same = false
					break
				}
			}
			if !same {
				break
			}
			prefI++
		}
		if int32(len(ks[s])) == prefI {
			if keep[s] {
				t.leafIdx = append(t.leafIdx, nid)
				t.leafVal = append(t.leafVal, encVals[s])
			}
			s++
		}
		var labels []byte
		bm := uint16(0)
		for j := s; j < e; j++ {
			if keep[j] {
				b := uint16(1) << ks[j][prefI]
				if bm&b == 0 {
					labels = append(labels, ks[j][prefI])
					bm |= b
				}
			}
		}
		if len(labels) > 0 {
			t.childIdx = append(t.childIdx, nid)
			t.childBM = append(t.childBM, bm)
			t.childOff = append(t.childOff, int32(len(queue)))
		}
		for _, label := range labels {
			for ; s < e; s++ {
				if ks[s][prefI] == label {
					break
				}
			}
			var j int32
			for j = s + 1; j < e; j++ {
				if ks[j][prefI] != label {
					break
				}
			}
			queue = append(queue, oldSubset{s, j, prefI + 1})
			s = j
		}
		step := prefI - o.from + 1
		if len(labels) > 0 && step > 1 {
			t.stepIdx = append(t.stepIdx, nid)
			t.stepVal = append(t.stepVal, uint16(step))
			if step > t.maxStep {
				t.maxStep = step
			}
		}
	}
	t.nodeCnt = int32(len(queue))
	return t
}

func pbHeader(ver string, n int) []byte {
	h := make([]byte, 32)
	copy(h, ver)
	binary.LittleEndian.PutUint64(h[16:], 32)
	binary.LittleEndian.PutUint64(h[24:], uint64(n))
	return h
}

// mkOldIndex builds Bitmaps/Offsets with the historical zero-offset quirk for
// empty words, extended to nWords if larger.
func mkOldIndex(idx []int32, nWords int) ([]uint64, []int32) {
	n := 0
	if len(idx) > 0 {
		n = int(idx[len(idx)-1])/64 + 1
	}
	if nWords > n {
		n = nWords
	}
	w := make([]uint64, n)
	for _, i := range idx {
		w[i>>6] |= 1 << uint(i&63)
	}
	off := make([]int32, n)
	c := int32(0)
	for i := range w {
		if w[i] != 0 {
			off[i] = c
		}
		c += int32(bits.OnesCount64(w[i]))
	}
	return w, off
}

func oldRank128(words []uint64) []int32 {
	idx := []int32{}
	n := int32(0)
	for i := 0; i < len(words); i += 2 {
		idx = append(idx, n)
		n += int32(bits.OnesCount64(words[i]))
		if i < len(words)-1 {
			n += int32(bits.OnesCount64(words[i+1]))
		}
	}
	if len(words)&1 == 0 {
		idx = append(idx, n)
	}
	return idx
}

// 0.5.1-0.5.3 share a layout, 0.5.4-0.5.6 too; 0.5.7 differs from 0.5.4 only
// for the empty key set (all three sections are written empty from 0.5.7 on).
var oldVariants = []string{"0.5.0", "0.5.3", "0.5.4", "0.5.7", "0.5.8", "0.5.9"}

// oldSections returns the three messages of a three-section stream.
func oldSections(t *oldTrie, variant string) (ver string, ch, st, lv *array.Array32) {
	ver = "1.0.0"
	ext := 0
	switch variant {
	case "0.5.8":
		ver = "0.5.8"
	case "0.5.9":
		ver = "0.5.9"
		ext = int(t.nodeCnt+63) / 64
	}
	if t.nodeCnt == 0 && (variant == "0.5.7" || variant == "0.5.8" || variant == "0.5.9") {
		return ver, &array.Array32{}, &array.Array32{}, &array.Array32{}
	}
	ch = &array.Array32{Cnt: int32(len(t.childIdx))}
	ch.Bitmaps, ch.Offsets = mkOldIndex(t.childIdx, ext)
	if variant == "0.5.0" || variant == "0.5.3" {
		for i := range t.childIdx {
			var b [4]byte
			binary.LittleEndian.PutUint32(b[:], uint32(t.childOff[i])<<16|uint32(t.childBM[i]))
			ch.Elts = append(ch.Elts, b[:]...)
		}
	} else {
		ch.Flags = 3
		ch.EltWidth = 16
		words := make([]uint64, (len(t.childBM)*16+63)/64)
		maxbit := int32(-1)
		for i, bm := range t.childBM {
			words[i/4] |= uint64(bm) << uint((i%4)*16)
		}
		for wi, w := range words {
			if w != 0 {
				maxbit = int32(wi*64 + 63 - bits.LeadingZeros64(w))
			}
		}
		ch.BMElts = &array.Bits{N: maxbit + 1, Words: words, RankIndex: oldRank128(words)}
	}
	st = &array.Array32{Cnt: int32(len(t.stepIdx))}
	st.Bitmaps, st.Offsets = mkOldIndex(t.stepIdx, ext)
	for _, s := range t.stepVal {
		st.Elts = append(st.Elts, byte(s), byte(s>>8))
	}
	lv = &array.Array32{Cnt: int32(len(t.leafIdx))}
	lv.Bitmaps, lv.Offsets = mkOldIndex(t.leafIdx, ext)
	for _, v := range t.leafVal {
		lv.Elts = append(lv.Elts, v...)
	}
	return
}

func serializeOld(t *oldTrie, variant string) []byte {
	ver, ch, st, lv := oldSections(t, variant)
	var out []byte
	for _, a := range []*array.Array32{ch, st, lv} {
		body, err := proto.Marshal(a)
		if err != nil {
			panic(err)
		}
		out = append(out, pbHeader(ver, len(body))...)
		out = append(out, body...)
	}
	return out
}

// legacyStream3 builds a three-section stream for entries; ok=false when the
// historical writer could not have encoded the key set (step > 65535).
func legacyStream3(keys []string, vals *ValSpec, variant string) ([]byte, bool) {
	n := len(keys)
	enc := make([][]byte, n)
	keep := make([]bool, n)
	for i := range keys {
		if vals.IsNone() {
			keep[i] = true
			continue
		}
		enc[i] = vals.RefEnc(i)
		keep[i] = i == 0 || !bytes.Equal(enc[i], enc[i-1])
	}
	t := buildOld(keys, enc, keep, variant == "0.5.0")
	if t.maxStep > 65535 {
		return nil, false
	}
	return serializeOld(t, variant), true
}

// ---- fixture access --------------------------------------------------------

// fixtureDir follows the repository under test (bin/env.sh exports VERIF_REPO).
var fixtureDir = func() string {
	if v := os.Getenv("VERIF_REPO"); v != "" {
		return v + "/trie/testdata"
	}
	return "/repo/trie/testdata"
}()

var fixtureSets = []string{"empty", "10vl5", "11vl5", "300vl50", "10ll16k", "20kl10", "20kvl10", "50kl10", "50kvl10"}

func loadSections(fn string) ([]*array.Array32, []string, error) {
	b, err := ioutil.ReadFile(fn)
	if err != nil {
		return nil, nil, err
	}
	r := bytes.NewReader(b)
	var res []*array.Array32
	var vs []string
	for r.Len() > 0 {
		_, h, err := pbcmpl.ReadHeader(r)
		if err != nil {
			return nil, nil, err
		}
		body := make([]byte, h.GetBodySize())
		if _, err := r.Read(body); err != nil && len(body) > 0 {
			return nil, nil, err
		}
		a := &array.Array32{}
		if err := proto.Unmarshal(body, a); err != nil {
			return nil, nil, err
		}
		res = append(res, a)
		vs = append(vs, h.GetVersion())
	}
	return res, vs, nil
}

func i32Vals(n int) *ValSpec {
	v := &ValSpec{Kind: "i32", Ints: make([]int64, n)}
	for i := range v.Ints {
		v.Ints[i] = int64(i)
	}
	return v
}

// validateBuildOld regenerates every archived three-section fixture from its
// key list with the writer model and compares the decoded sections. Returns
// the number of fixtures that matched and the first mismatch.
func validateBuildOld() (int, error) {
	matched := 0
	for _, ds := range fixtureSets {
		var keys []string
		loaded := false
		for _, v := range []string{"0.5.0", "0.5.1", "0.5.2", "0.5.3", "0.5.4", "0.5.5", "0.5.6", "0.5.7", "0.5.8", "0.5.9"} {
			fn := fixtureDir + "/slimtrie-data-" + ds + "-" + v
			if _, err := os.Stat(fn); err != nil {
				continue
			}
			if !loaded {
				keys = testkeys.Load(ds)
				loaded = true
			}
			as, vers, err := loadSections(fn)
			if err != nil || len(as) != 3 {
				return matched, fmt.Errorf("%s: cannot parse fixture: %v", fn, err)
			}
			variant := v
			switch v {
			case "0.5.1", "0.5.2":
				variant = "0.5.3"
			case "0.5.5", "0.5.6":
				variant = "0.5.4"
			}
			vals := i32Vals(len(keys))
			enc := make([][]byte, len(keys))
			keep := make([]bool, len(keys))
			for i := range keys {
				enc[i] = vals.RefEnc(i)
				keep[i] = true
			}
			t := buildOld(keys, enc, keep, variant == "0.5.0")
			ver, ch, st, lv := oldSections(t, variant)
			if vers[0] != ver {
				return matched, fmt.Errorf("%s: header version %q, model writes %q", fn, vers[0], ver)
			}
			for si, pair := range [][2]*array.Array32{{as[0], ch}, {as[1], st}, {as[2], lv}} {
				if !proto.Equal(pair[0], pair[1]) {
					return matched, fmt.Errorf("%s: section %d differs from the writer model (cnt %d vs %d, words %d vs %d)", fn, si, pair[0].Cnt, pair[1].Cnt, len(pair[0].Bitmaps), len(pair[1].Bitmaps))
				}
			}
			matched++
		}
	}
	return matched, nil
}

// ---- 0.5.10 / 0.5.11 layout ------------------------------------------------

func putVarint(b []byte, v uint64) []byte {
	for v >= 0x80 {
		b = append(b, byte(v)|0x80)
		v >>= 7
	}
	return append(b, byte(v))
}

func fixOldSelect(bm *trie.Bitmap) {
	if bm == nil {
		return
	}
	for i := range bm.SelectIndex {
		bm.SelectIndex[i] >>= 6
	}
}

// downgrade0510 converts a current-format message into the 0.5.10/0.5.11
// layout: inner prefixes from trailing-byte bit-strings to control-byte form,
// Leaves reduced to bare Bytes, word-granular select indexes, the since
// removed fields 12/13/15 emitted.
func downgrade0510(cur *trie.Slim) *trie.Slim {
	old := proto.Clone(cur).(*trie.Slim)
	if old.NodeTypeBM == nil {
		return &trie.Slim{}
	}
	ips := old.InnerPrefixes
	if ips != nil && ips.PositionBM != nil {
		pos := []int32{}
		for wi, w := range ips.PositionBM.Words {
			for w != 0 {
				pos = append(pos, int32(wi*64+bits.TrailingZeros64(w)))
				w &= w - 1
			}
		}
		for i := 0; i+1 < len(pos); i++ {
			elt := ips.Bytes[pos[i]:pos[i+1]]
			l := len(elt)
			mask := elt[l-1]
			nb := make([]byte, l)
			copy(nb[1:], elt[:l-1])
			if mask != 0xff {
				nb[0] = 1
				n := bits.OnesCount8(mask)
				nb[l-1] |= 1 << uint(7-n)
			}
			copy(elt, nb)
		}
		fixOldSelect(ips.PositionBM)
	}
	if old.LeafPrefixes != nil {
		fixOldSelect(old.LeafPrefixes.PositionBM)
		// The historical writer sized the leaf-prefix presence bitmap by the
		// number of stored leaf VALUES: for a key-only trie (no values) the
		// bitmap only reaches the last leaf that has a prefix. Streams of that
		// shape exist; model them independently of what today's builder does.
		if old.Leaves == nil && old.LeafPrefixes.PresenceBM != nil {
			pb := old.LeafPrefixes.PresenceBM
			var idx []int32
			for wi, w := range pb.Words {
				for w != 0 {
					idx = append(idx, int32(wi*64+bits.TrailingZeros64(w)))
					w &= w - 1
				}
			}
			pb.Words = bitmap.Of(idx)
			pb.RankIndex = bitmap.IndexRank64(pb.Words)
		}
	}
	if old.Leaves != nil {
		old.Leaves = &trie.VLenArray{Bytes: old.Leaves.Bytes}
	}
	var u []byte
	bigOff := int64(240) * int64(old.BigInnerCnt)
	if bigOff != 0 {
		u = putVarint(u, 12<<3)
		u = putVarint(u, uint64(bigOff))
	}
	smi := int64(old.ShortSize) - 17
	u = putVarint(u, 13<<3)
	u = putVarint(u, uint64(smi))
	sm := uint64(1)<<uint(old.ShortSize) - 1
	if sm != 0 {
		u = putVarint(u, 15<<3)
		u = putVarint(u, sm)
	}
	old.XXX_unrecognized = u
	return old
}

// legacyStream0510 derives a 0.5.10/0.5.11 stream from a current-format
// stream (only meaningful for fixed-size values: the old layout had bare leaf
// bytes).
func legacyStream0510(curStream []byte, ver string) ([]byte, error) {
	cur := parseSlim(curStream)
	if cur == nil {
		return nil, fmt.Errorf("cannot parse current stream")
	}
	old := downgrade0510(cur)
	body, err := proto.Marshal(old)
	if err != nil {
		return nil, err
	}
	return append(pbHeader(ver, len(body)), body...), nil
}

var modes0510 = []struct {
	Name string
	Opt  OptSet
}{
	{"nopref", OptSet{D: true}},
	{"innpref", OptSet{D: true, I: true}},
	{"allpref", OptSet{D: true, C: true}},
}

// validateDowngrade regenerates every *-0.5.10 fixture from today's builder +
// downgrade0510 and compares the parsed messages. A mismatch only says that
// today's builder no longer produces the archived shapes.
func validateDowngrade() (int, int, string) {
	matched, total := 0, 0
	first := ""
	for _, ds := range fixtureSets {
		keys := testkeys.Load(ds)
		vals := i32Vals(len(keys))
		for _, m := range modes0510 {
			fn := fixtureDir + "/slimtrie-data-" + ds + "-" + m.Name + "-0.5.10"
			fix, err := ioutil.ReadFile(fn)
			if err != nil {
				continue
			}
			total++
			st, err := trie.NewSlimTrie(encode.I32{}, keys, vals.Slice(), m.Opt.Opt())
			if err != nil {
				if first == "" {
					first = fn + ": build: " + err.Error()
				}
				continue
			}
			b, _ := st.Marshal()
			cur := parseSlim(b)
			old := downgrade0510(cur)
			fo := &trie.Slim{}
			if err := proto.Unmarshal(fix[32:], fo); err != nil {
				if first == "" {
					first = fn + ": parse: " + err.Error()
				}
				continue
			}
			ob, _ := proto.Marshal(old)
			mo := &trie.Slim{}
			proto.Unmarshal(ob, mo)
			if proto.Equal(fo, mo) && bytes.Equal(sortedUnknown(fo.XXX_unrecognized), sortedUnknown(mo.XXX_unrecognized)) && len(ob) == len(fix)-32 {
				matched++
			} else if first == "" {
				first = fn + ": regenerated message differs"
			}
		}
	}
	return matched, total, first
}

func sortedUnknown(b []byte) []byte { return b }

// fixtureList enumerates the archived files with their data set, option name
// and version.
type fixture struct {
	File, Set, Opt, Ver string
}

func listFixtures() []fixture {
	var out []fixture
	ents, _ := ioutil.ReadDir(fixtureDir)
	for _, e := range ents {
		name := e.Name()
		if !strings.HasPrefix(name, "slimtrie-data-") {
			continue
		}
		parts := strings.Split(strings.TrimPrefix(name, "slimtrie-data-"), "-")
		f := fixture{File: fixtureDir + "/" + name, Set: parts[0], Ver: parts[len(parts)-1]}
		if len(parts) == 3 {
			f.Opt = parts[1]
		}
		out = append(out, f)
	}
	return out
}

var _ = bitmap.Of
