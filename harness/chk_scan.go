package main

import (
	"bytes"
	"encoding/hex"
	"fmt"
	"sort"
	"strings"

	"github.com/openacid/slim/trie"
)

type kv struct {
	k, v []byte
}

type scanEnv struct {
	prop  string
	ctx   *Ctx
	lc    *LCase
	opt   OptSet
	model *Model
	inst  string
	st    *trie.SlimTrie
	// expected encoded values of retained entries (nil without values)
	encVals [][]byte
	window  int
}

func (e *scanEnv) viol(clause string, extra map[string]interface{}) {
	d := e.lc.describe()
	d["opt"] = e.opt.String()
	d["instance"] = e.inst
	for k, v := range extra {
		d[k] = v
	}
	p := e.prop
	if p == "" {
		p = "C04"
	}
	e.ctx.Violate(fmt.Sprintf("%s/%s/%s", p, clause, e.opt.String()), d)
}

func showKVs(s []kv, max int) []string {
	out := []string{}
	for i, x := range s {
		if i >= max {
			out = append(out, fmt.Sprintf("... (%d)", len(s)))
			break
		}
		v := "<nil>"
		if x.v != nil {
			v = hex.EncodeToString(x.v)
		}
		out = append(out, hexq(string(x.k))+"="+v)
	}
	return out
}

// expect returns the model's retained entries in [start..] (or (start..]) cut
// at end if hasEnd, at most limit entries.
func (e *scanEnv) expect(start string, incl bool, hasEnd bool, end string, endIncl bool, withValue bool, limit int) []kv {
	m := e.model
	p := sort.SearchStrings(m.RetKeys, start)
	if p < len(m.RetKeys) && m.RetKeys[p] == start && !incl {
		p++
	}
	var out []kv
	for ; p < len(m.RetKeys) && len(out) < limit; p++ {
		k := m.RetKeys[p]
		if hasEnd {
			if k > end || (k == end && !endIncl) {
				break
			}
		}
		x := kv{k: []byte(k)}
		if withValue && e.encVals != nil {
			x.v = e.encVals[p]
		}
		out = append(out, x)
	}
	return out
}

func sameKVs(got, want []kv) (bool, string) {
	if len(got) != len(want) {
		return false, fmt.Sprintf("length %d, expected %d", len(got), len(want))
	}
	for i := range got {
		if !bytes.Equal(got[i].k, want[i].k) {
			return false, fmt.Sprintf("key #%d differs", i)
		}
		if !bytes.Equal(got[i].v, want[i].v) {
			return false, fmt.Sprintf("value #%d differs", i)
		}
	}
	return true, ""
}

// scanOnce drives one start string through the three entry points.
// stopAt: callback returns false on its stopAt-th invocation (1-based); 0 = never.
func (e *scanEnv) scanOnce(start string, incl, withValue bool, stopAt int, end string, endIncl bool, useEnd bool) bool {
	e.ctx.Beat()
	st := e.st
	args := map[string]interface{}{"start_hex": hexq(start), "include_start": incl, "with_value": withValue, "stop_at": stopAt}
	limit := e.window
	// --- ScanFrom
	{
		var got []kv
		calls, afterFalse := 0, 0
		stopped := false
		pv, stack := try(func() {
			st.ScanFrom(start, incl, withValue, func(k, v []byte) bool {
				if stopped {
					afterFalse++
					return false
				}
				calls++
				x := kv{k: append([]byte{}, k...)}
				if v != nil {
					x.v = append([]byte{}, v...)
				}
				got = append(got, x)
				if (stopAt > 0 && calls == stopAt) || calls >= limit {
					stopped = true
					return false
				}
				return true
			})
		})
		e.ctx.Count("calls:ScanFrom", 1)
		if pv != nil {
			args["panic"], args["stack"] = fmt.Sprint(pv), stack
			e.viol("scanfrom-panic", args)
			return false
		}
		lim := limit
		if stopAt > 0 && stopAt < lim {
			lim = stopAt
		}
		want := e.expect(start, incl, false, "", false, withValue, lim)
		if ok, why := sameKVs(got, want); !ok {
			args["why"], args["expected"], args["observed"] = why, showKVs(want, 12), showKVs(got, 12)
			e.viol("scanfrom-sequence", args)
			return false
		}
		if afterFalse > 0 {
			args["callbacks_after_false"] = afterFalse
			e.viol("scanfrom-callback-after-false", args)
			return false
		}
		e.ctx.Count("yielded", int64(len(got)))
		if len(got) == 0 {
			e.ctx.Count("scans:empty_result", 1)
		}
	}
	// --- ScanFromTo
	if useEnd {
		var got []kv
		calls, afterFalse := 0, 0
		stopped := false
		args["end_hex"], args["include_end"] = hexq(end), endIncl
		pv, stack := try(func() {
			st.ScanFromTo(start, incl, end, endIncl, withValue, func(k, v []byte) bool {
				if stopped {
					afterFalse++
					return false
				}
				calls++
				x := kv{k: append([]byte{}, k...)}
				if v != nil {
					x.v = append([]byte{}, v...)
				}
				got = append(got, x)
				if (stopAt > 0 && calls == stopAt) || calls >= limit {
					stopped = true
					return false
				}
				return true
			})
		})
		e.ctx.Count("calls:ScanFromTo", 1)
		if pv != nil {
			args["panic"], args["stack"] = fmt.Sprint(pv), stack
			e.viol("scanfromto-panic", args)
			return false
		}
		lim := limit
		if stopAt > 0 && stopAt < lim {
			lim = stopAt
		}
		want := e.expect(start, incl, true, end, endIncl, withValue, lim)
		if ok, why := sameKVs(got, want); !ok {
			args["why"], args["expected"], args["observed"] = why, showKVs(want, 12), showKVs(got, 12)
			e.viol("scanfromto-sequence", args)
			return false
		}
		if afterFalse > 0 {
			args["callbacks_after_false"] = afterFalse
			e.viol("scanfromto-callback-after-false", args)
			return false
		}
		if len(got) > 0 && len(want) < len(e.expect(start, incl, false, "", false, false, limit)) {
			e.ctx.Count("scans:cut_by_end_bound", 1)
		}
		delete(args, "end_hex")
		delete(args, "include_end")
	}
	// --- NewIter
	{
		var got []kv
		extraBad := ""
		pv, stack := try(func() {
			nxt := st.NewIter(start, incl, withValue)
			exhausted := false
			for len(got) < limit {
				k, v := nxt()
				if k == nil {
					if v != nil {
						extraBad = "exhausted iterator returned a value with a nil key"
					}
					exhausted = true
					break
				}
				x := kv{k: append([]byte{}, k...)}
				if v != nil {
					x.v = append([]byte{}, v...)
				}
				got = append(got, x)
			}
			if exhausted {
				for t := 0; t < 3; t++ {
					k, v := nxt()
					if k != nil || v != nil {
						extraBad = fmt.Sprintf("call #%d after exhaustion returned key=%x value=%x", t+1, k, v)
					}
				}
				e.ctx.Count("iters:run_to_exhaustion", 1)
			}
		})
		e.ctx.Count("calls:NewIter", 1)
		if pv != nil {
			args["panic"], args["stack"] = fmt.Sprint(pv), stack
			e.viol("newiter-panic", args)
			return false
		}
		want := e.expect(start, incl, false, "", false, withValue, limit)
		if ok, why := sameKVs(got, want); !ok {
			args["why"], args["expected"], args["observed"] = why, showKVs(want, 12), showKVs(got, 12)
			e.viol("newiter-sequence", args)
			return false
		}
		if extraBad != "" {
			args["why"] = extraBad
			e.viol("newiter-after-exhaustion", args)
			return false
		}
	}
	return true
}

// interleaved: several scans of one trie alive at once in ONE goroutine: two
// iterators stepped alternately, a finished iterator polled again, and a scan
// started from inside another scan's callback. Each must deliver its own
// sequence (a scan API that keeps state in the trie would pass every
// one-at-a-time check).
func (e *scanEnv) interleaved(s1, s2 string) bool {
	e.ctx.Beat()
	st := e.st
	lim := 60
	w1 := e.expect(s1, true, false, "", false, true, lim)
	w2 := e.expect(s2, false, false, "", false, false, lim)
	args := map[string]interface{}{"start1_hex": hexq(s1), "start2_hex": hexq(s2)}
	var g1, g2, g3 []kv
	var nested [][]kv
	pv, stack := try(func() {
		it1 := st.NewIter(s1, true, true)
		it2 := st.NewIter(s2, false, false)
		d1, d2 := false, false
		for step := 0; step < lim+3 && !(d1 && d2); step++ {
			if !d1 || step%5 == 0 { // a finished iterator is polled again now and then
				k, v := it1()
				if k == nil {
					d1 = true
				} else if !d1 && len(g1) < lim {
					g1 = append(g1, kv{append([]byte{}, k...), append([]byte(nil), v...)})
				} else if d1 {
					g1 = append(g1, kv{k: []byte("YIELD-AFTER-END")})
				}
			}
			if !d2 || step%7 == 0 {
				k, _ := it2()
				if k == nil {
					d2 = true
				} else if !d2 && len(g2) < lim {
					g2 = append(g2, kv{k: append([]byte{}, k...)})
				} else if d2 {
					g2 = append(g2, kv{k: []byte("YIELD-AFTER-END")})
				}
			}
		}
		// a scan started inside another scan's callback
		n := 0
		st.ScanFrom(s1, true, true, func(k, v []byte) bool {
			g3 = append(g3, kv{append([]byte{}, k...), append([]byte(nil), v...)})
			if n < 3 {
				var inner []kv
				m := 0
				st.ScanFrom(s2, false, false, func(k2, v2 []byte) bool {
					inner = append(inner, kv{k: append([]byte{}, k2...)})
					m++
					return m < 8
				})
				nested = append(nested, inner)
			}
			n++
			return n < lim
		})
	})
	e.ctx.Count("interleaved_scan_sets", 1)
	if pv != nil {
		args["panic"], args["stack"] = fmt.Sprint(pv), stack
		e.viol("interleaved-panic", args)
		return false
	}
	fixNil := func(s []kv) []kv {
		for i := range s {
			if len(s[i].v) == 0 {
				s[i].v = nil
			}
		}
		return s
	}
	for name, pair := range map[string][2][]kv{"iterator-1": {fixNil(g1), fixNil(w1)}, "iterator-2": {g2, w2}, "outer-scan": {fixNil(g3), fixNil(w1)}} {
		if ok, why := sameKVs(pair[0], pair[1]); !ok {
			args["which"], args["why"], args["expected"], args["observed"] = name, why, showKVs(pair[1], 10), showKVs(pair[0], 10)
			e.viol("interleaved-scans-interfere", args)
			return false
		}
	}
	w2short := w2
	if len(w2short) > 8 {
		w2short = w2short[:8]
	}
	for _, inner := range nested {
		if ok, why := sameKVs(inner, w2short); !ok {
			args["which"], args["why"], args["expected"], args["observed"] = "nested-scan", why, showKVs(w2short, 10), showKVs(inner, 10)
			e.viol("interleaved-scans-interfere", args)
			return false
		}
	}
	return true
}

// refusal: on a non-empty trie that does not store complete keys every scan
// entry point must panic before yielding anything.
func (e *scanEnv) refusal(starts []string) {
	st := e.st
	empty := len(e.model.RetKeys) == 0
	for _, start := range starts {
		for api := 0; api < 3; api++ {
			yielded := 0
			var first []byte
			name := []string{"ScanFrom", "ScanFromTo", "NewIter"}[api]
			pv, _ := try(func() {
				switch api {
				case 0:
					st.ScanFrom(start, true, true, func(k, v []byte) bool {
						if yielded == 0 {
							first = append([]byte{}, k...)
						}
						yielded++
						return yielded < 3
					})
				case 1:
					st.ScanFromTo(start, true, "\xff\xff\xff\xff", true, false, func(k, v []byte) bool {
						if yielded == 0 {
							first = append([]byte{}, k...)
						}
						yielded++
						return yielded < 3
					})
				case 2:
					nxt := st.NewIter(start, true, false)
					for t := 0; t < 3; t++ {
						k, _ := nxt()
						if k == nil {
							break
						}
						if yielded == 0 {
							first = append([]byte{}, k...)
						}
						yielded++
					}
				}
			})
			if yielded > 0 {
				e.viol("refusal-yielded", map[string]interface{}{"api": name, "start_hex": hexq(start), "first_yielded_key_hex": hex.EncodeToString(first), "panicked_later": pv != nil})
				return
			}
			if pv != nil {
				e.ctx.Count("refusal:panicked", 1)
			} else if empty {
				e.ctx.Count("refusal:empty_trie_no_panic", 1)
			} else {
				e.viol("refusal-no-panic", map[string]interface{}{"api": name, "start_hex": hexq(start)})
				return
			}
		}
	}
}

func runScanCase(ctx *Ctx, lc *LCase, caseIdx int) {
	n := len(lc.Keys)
	enc := lc.Vals.Encoder()
	vslice := lc.Vals.Slice()
	models := map[bool]*Model{true: NewModel(lc.Keys, lc.Vals, true), false: NewModel(lc.Keys, lc.Vals, false)}
	encVals := map[bool][][]byte{}
	if !lc.Vals.IsNone() {
		for _, d := range []bool{true, false} {
			m := models[d]
			ev := make([][]byte, len(m.Ret))
			for r, i := range m.Ret {
				ev[r] = lc.Vals.RefEnc(i)
			}
			encVals[d] = ev
		}
	}
	ctx.Eval()
	if len(models[true].RetKeys) >= 2 {
		ctx.Nontrivial(lc.hash())
	}
	r := lc.R
	var starts []string
	if lc.Queries != nil {
		starts = lc.Queries
	} else {
		qs := genQueries(r.Fork(), lc.Keys, 600)
		// keep a sample: some keys, some non-keys
		nStarts := 24
		if ctx.Tier == "thorough" {
			nStarts = 60
		}
		if len(qs) <= nStarts {
			starts = qs
		} else {
			p := r.Perm(len(qs))
			for _, i := range p[:nStarts] {
				starts = append(starts, qs[i])
			}
			starts = append(starts, "")
			if n > 0 {
				starts = append(starts, lc.Keys[0], lc.Keys[n-1], lc.Keys[n/2])
			}
		}
	}
	if !lc.Exh {
		ctx.Count("family:"+lc.Family, 1)
		ctx.Count("valkind:"+lc.Vals.Kind, 1)
		ctx.Max("keys", int64(n))
	}
	window := 200
	opts := allOptSets()
	sampled := false
	var prevScan *scanEnv
	for oi, o := range opts {
		if lc.Golden != nil && o != lc.Golden.Opt {
			continue
		}
		if lc.Exh {
			// behaviourally distinct sets only
			s := o.String()
			switch s {
			case "D0I0L0C1", "D1I0L0C1", "D0I1L1C0", "D1I1L1C0", "D0I0L0C0", "D1I0L0C0", "D0I1L0C0", "D1I1L0C0", "D0I0L1C0", "D1I0L1C0":
			default:
				continue
			}
		}
		m := models[o.D]
		st, err, pv, stack := buildTrie(enc, lc.Keys, vslice, o.Opt())
		env := &scanEnv{ctx: ctx, lc: lc, opt: o, model: m, inst: "fresh", st: st, encVals: encVals[o.D], window: window}
		if pv != nil || err != nil {
			env.viol("build-failed", map[string]interface{}{"panic": fmt.Sprint(pv), "error": fmt.Sprint(err), "stack": stack})
			continue
		}
		if !o.Complete() {
			ns := starts
			if len(ns) > 3 {
				ns = []string{starts[0], starts[len(starts)/2], ""}
			}
			env.refusal(ns)
			if !lc.Exh && oi%3 == 0 {
				stream, _ := st.Marshal()
				if ld, err, pv, _ := loadTrie(enc, stream); pv == nil && err == nil {
					env.inst, env.st = "loaded", ld
					env.refusal(ns)
				}
			}
			continue
		}
		var stream []byte
		pv, stack = try(func() { stream, err = st.Marshal() })
		if pv != nil || err != nil {
			env.viol("marshal-failed", map[string]interface{}{"panic": fmt.Sprint(pv), "error": fmt.Sprint(err), "stack": stack})
			continue
		}
		if !lc.Exh && (oi == 15 || oi == 7) {
			sh := classify(parseSlim(stream))
			countShape(ctx, sh)
			if sh.VarLenLeaves {
				// sizes grow and shrink along the key order?
				grow, shrink := false, false
				ev := encVals[o.D]
				for i := 1; i < len(ev); i++ {
					if len(ev[i]) > len(ev[i-1]) {
						grow = true
					} else if len(ev[i]) < len(ev[i-1]) {
						shrink = true
					}
				}
				if grow && shrink {
					ctx.Count("shape:varlen_grow_and_shrink", 1)
				}
			}
		}
		// the complete trie of an earlier option set is still alive: scan it
		// again now that other tries have been built since
		if prevScan != nil {
			prevScan.window = 40
			prevScan.scanOnce("", true, true, 0, "", false, false)
			if len(starts) > 1 {
				prevScan.scanOnce(starts[1], false, false, 0, starts[0], true, true)
			}
			ctx.Count("survivor_rescans", 1)
		}
		prevScan = &scanEnv{ctx: ctx, lc: lc, opt: o, model: m, inst: "survivor(fresh)", st: st, encVals: encVals[o.D], window: 40}
		insts := []Inst{{"fresh", st}}
		if ld, err, pv, stack := loadTrie(enc, stream); pv != nil || err != nil {
			env.inst = "loaded"
			env.viol("load-failed", map[string]interface{}{"panic": fmt.Sprint(pv), "error": fmt.Sprint(err), "stack": stack})
		} else {
			insts = append(insts, Inst{"loaded", ld})
		}
		if lc.Golden != nil {
			if gl, err, pv, stack := loadTrie(enc, lc.Golden.Stream); pv != nil || err != nil {
				env.inst = "golden-loaded"
				env.viol("golden-stream-does-not-load", map[string]interface{}{"golden": lc.Golden.Name, "panic": fmt.Sprint(pv), "error": fmt.Sprint(err), "stack": stack})
			} else {
				insts = append(insts, Inst{"golden-loaded", gl})
			}
		}
		// the same complete index as 0.5.10 / 0.5.11 wrote it (control-byte
		// prefixes, bare leaf bytes; fixed-size values, de-duplication on), and
		// reloaded in place into an instance that has already scanned another trie
		if !lc.Exh && o.D && o.C && !o.I && !o.L && !lc.Vals.IsNone() && lc.Vals.FixedSize() {
			ver := []string{"0.5.10", "0.5.11"}[(caseIdx+oi)%2]
			if ls, lerr := legacyStream0510(stream, ver); lerr == nil {
				if lg, err, pv, stack := loadTrie(enc, ls); pv != nil || err != nil {
					env.inst = "legacy-" + ver + "-loaded"
					env.viol("load-failed", map[string]interface{}{"panic": fmt.Sprint(pv), "error": fmt.Sprint(err), "stack": stack})
				} else {
					insts = append(insts, Inst{"legacy-" + ver + "-allpref-loaded", lg})
				}
			}
		}
		if !lc.Exh && (caseIdx+oi)%3 == 0 {
			var oldVals interface{}
			if !lc.Vals.IsNone() && len(lc.Keys) >= 3 {
				oldVals = lc.Vals.Prefix(3).Slice()
			}
			if rl, err, pv, _ := loadTrieReused(enc, stream, oldVals); pv == nil && err == nil {
				insts = append(insts, Inst{"reloaded", rl})
			}
		}
		for _, in := range insts {
			env.inst, env.st = in.Name, in.St
			ctx.Count("instances:"+strings.SplitN(in.Name, "-0.5.1", 2)[0], 1)
			ok := true
			for si, start := range starts {
				if !ok {
					break
				}
				// rotate the remaining parameters deterministically
				x := si + oi + caseIdx
				incl := x%2 == 0
				withValue := x/2%2 == 0
				stopAt := 0
				switch x / 4 % 4 {
				case 1:
					stopAt = 1
				case 2:
					stopAt = 1 + r.Intn(len(m.RetKeys)+1)
				}
				end := starts[(si*7+3)%len(starts)]
				endIncl := x/16%2 == 0
				if lc.Exh {
					// both inclusivities and value modes for every start
					for _, inc := range []bool{true, false} {
						ok = ok && env.scanOnce(start, inc, inc != withValue, stopAt, end, endIncl, true)
					}
					end2 := starts[(si*11+5)%len(starts)]
					ok = ok && env.scanOnce(start, incl, withValue, 0, end2, !endIncl, true)
				} else {
					ok = env.scanOnce(start, incl, withValue, stopAt, end, endIncl, true)
					if ok && si < 6 {
						ok = env.scanOnce(start, !incl, !withValue, 0, start, endIncl, true)
					}
				}
			}
			if ok && len(starts) >= 2 {
				a, b := starts[(caseIdx+oi)%len(starts)], starts[(caseIdx*3+oi+1)%len(starts)]
				ok = env.interleaved(a, b)
				if ok && lc.Exh {
					ok = env.interleaved("", a)
				}
			}
			// one full-length scan (no window) from the beginning
			if ok && !lc.Exh && len(m.RetKeys) > window {
				env.window = 1 << 30
				env.scanOnce("", true, caseIdx%2 == 0, 0, "", false, false)
				env.window = window
				ctx.Count("scans:full_length", 1)
				ctx.Max("full_scan_len", int64(len(m.RetKeys)))
			}
		}
		if !sampled && !lc.Exh && ctx.WantSample() && n > 1 && n <= 10 {
			sampled = true
			d := lc.describe()
			d["opt"] = o.String()
			d["start_hex"] = hexq(starts[0])
			d["include_start"] = true
			d["yielded"] = showKVs(env.expect(starts[0], true, false, "", false, true, 6), 6)
			ctx.Sample(d)
		}
	}
}

var scanProfile = &lprofile{prop: "C04", qmax: 600, quickCases: 1100, thorCases: 7000, raceCases: 300}

func init() {
	p := scanProfile
	def := &CheckDef{
		ID: "C04", Level: "exploration",
		Rule:     "case = (key list, value list+encoder) x 16 option sets; on the option sets that store complete keys: fresh and loaded instances, start strings sampled from Q(K), both start inclusivities, with/without values, callback stop points (never/first/random), end bounds with both inclusivities, through ScanFrom, ScanFromTo and NewIter (+3 calls after exhaustion), compared with the model's retained suffix; two iterators stepped alternately (finished ones polled again) and a scan started inside another scan's callback must each deliver their own sequence; on the others: every entry point must panic before yielding (empty tries may return nothing); non-trivial = at least 2 retained keys; distinct by hash of keys and encoded values",
		NumCases: p.numCases,
		Run: func(ctx *Ctx, idx int) {
			lc, sp, subs := p.caseAt(ctx, idx)
			if lc != nil {
				runScanCase(ctx, lc, idx)
				return
			}
			for si, sub := range subs {
				keys := make([]string, len(sub))
				for i, x := range sub {
					keys[i] = sp.Univ[x]
				}
				for pi, pat := range runPatterns(len(keys)) {
					if (si+pi)%3 != 0 && len(keys) >= 4 {
						continue // a third of the value patterns for sets of 4 and 5 keys
					}
					v := &ValSpec{Kind: "str16", Strs: make([]string, len(pat))}
					for i, x := range pat {
						v.Strs[i] = []string{"", "a", "bcd"}[x%3]
					}
					lc := &LCase{Family: "exhaustive", Keys: keys, Vals: v, Queries: sp.Univ, Exh: true, R: NewRNG(uint64(si*131 + pi))}
					runScanCase(ctx, lc, idx*64+si+pi)
				}
				lc := &LCase{Family: "exhaustive", Keys: keys, Vals: &ValSpec{Kind: "none"}, Queries: sp.Univ, Exh: true, R: NewRNG(uint64(si))}
				runScanCase(ctx, lc, idx*64+si)
				ctx.Count("exhaustive:key_sets", 1)
			}
		},
		MinNontrivial: func(tier string) int {
			if tier == "thorough" {
				return 5000
			}
			return 500
		},
		Gates: shapeGates("shape:with_257bit_nodes", "shape:with_257bit_below_root", "shape:with_17bit_nodes", "shape:with_short_nodes", "shape:with_straddling_short",
			"shape:with_end_of_key_label", "shape:with_halfbyte_prefix", "shape:with_aligned_prefix", "shape:with_varlen_leaves", "shape:varlen_grow_and_shrink",
			"refusal:panicked", "scans:full_length", "scans:cut_by_end_bound", "scans:empty_result", "interleaved_scan_sets", "survivor_rescans", "iters:run_to_exhaustion", "instances:loaded", "instances:golden-loaded", "valkind:str16", "valkind:none"),
		Assumptions: []string{
			"the reference model (sorted retained list, lower bound) is correct",
			"reference value encodings in harness/gen_vals.go are the documented layouts",
			"'does not store complete keys' is decided by the documented option normalisation (Complete, or InnerPrefix together with LeafPrefix, store complete keys)",
		},
		RaceCases: func(tier string) int {
			if tier == "thorough" {
				return len(directedKeySets())*2 + numBig(tier) + len(loadGolden()) + p.raceCases
			}
			return 0
		},
		Finish: func(tier string, m *Merged, cov map[string]interface{}) {
			total := 0
			for _, s := range exhSpaces(p.exhTier(tier)) {
				total += len(s.Subsets)
			}
			cov["exhaustive_part"] = map[string]interface{}{"key_sets_in_scope": total, "key_sets_executed": m.C("exhaustive:key_sets"),
				"what": "every key set of size <=k over the small universes with String16 values in adjacent-equality patterns (a third of the patterns for sets of 4 and 5 keys; thorough: universe A up to 5 keys, universe B up to 3) and without values; every universe string as start"}
		},
	}
	register(def)
}
