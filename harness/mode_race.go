//go:build race

package main

func init() { buildMode = "race" }
