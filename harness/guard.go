package main

import (
	"runtime/debug"
	"syscall"
	"unsafe"
)

// Guard is an mmap'ed region [PROT_NONE page][data pages][PROT_NONE page] with
// the payload right-aligned against the trailing guard page. With
// debug.SetPanicOnFault(true) a stray access becomes a recoverable panic.
type Guard struct {
	m    []byte
	Buf  []byte
	ps   int
	dead bool
}

func init() { debug.SetPanicOnFault(true) }

func NewGuard(data []byte) *Guard {
	ps := syscall.Getpagesize()
	n := (len(data) + ps - 1) / ps * ps
	if n == 0 {
		n = ps
	}
	m, err := syscall.Mmap(-1, 0, n+2*ps, syscall.PROT_READ|syscall.PROT_WRITE, syscall.MAP_ANON|syscall.MAP_PRIVATE)
	if err != nil {
		panic(err)
	}
	syscall.Mprotect(m[:ps], syscall.PROT_NONE)
	syscall.Mprotect(m[ps+n:], syscall.PROT_NONE)
	g := &Guard{m: m, ps: ps}
	g.Buf = m[ps+n-len(data) : ps+n : ps+n]
	copy(g.Buf, data)
	return g
}

func (g *Guard) data() []byte { return g.m[g.ps : len(g.m)-g.ps] }

// ReadOnly: any store into the payload faults.
func (g *Guard) ReadOnly() { syscall.Mprotect(g.data(), syscall.PROT_READ) }

// NoAccess: any load or store faults (a retained alias shows on first use).
func (g *Guard) NoAccess() { syscall.Mprotect(g.data(), syscall.PROT_NONE) }

func (g *Guard) ReadWrite() { syscall.Mprotect(g.data(), syscall.PROT_READ|syscall.PROT_WRITE) }

// Free unmaps the region. The caller must not use Buf afterwards.
func (g *Guard) Free() {
	if !g.dead {
		syscall.Munmap(g.m)
		g.dead = true
	}
}

// guardedQuery returns a string equal to q whose last byte is the last byte
// before a PROT_NONE page (one region per process, reused: the string is valid
// until the next call). A lookup that reads past the end of its query string -
// through a hand-built slice header, a word-at-a-time load - faults, and the
// fault is a recoverable panic. The bytes in front of the string are 0xa5.
var queryGuard *Guard

func guardedQuery(q string) (string, bool) {
	if queryGuard == nil {
		queryGuard = NewGuard(make([]byte, 1<<17))
		for i := range queryGuard.Buf {
			queryGuard.Buf[i] = 0xa5
		}
	}
	buf := queryGuard.Buf
	if len(q) == 0 || len(q) > len(buf)-64 {
		return "", false
	}
	dst := buf[len(buf)-len(q):]
	copy(dst, q)
	buf[len(buf)-len(q)-1] = 0xa5
	return unsafe.String(&dst[0], len(q)), true
}
