package main

import (
	"runtime/debug"
	"syscall"
)

// Guard is an mmap'ed region [PROT_NONE page][data pages][PROT_NONE page] with
// the payload right-aligned against the trailing guard page. With
// debug.SetPanicOnFault(true) a stray access becomes a recoverable panic.
type Guard struct {
	m    []byte
	Buf  []byte
	ps   int
	dead bool
}

func init() { debug.SetPanicOnFault(true) }

func NewGuard(data []byte) *Guard {
	ps := syscall.Getpagesize()
	n := (len(data) + ps - 1) / ps * ps
	if n == 0 {
		n = ps
	}
	m, err := syscall.Mmap(-1, 0, n+2*ps, syscall.PROT_READ|syscall.PROT_WRITE, syscall.MAP_ANON|syscall.MAP_PRIVATE)
	if err != nil {
		panic(err)
	}
	syscall.Mprotect(m[:ps], syscall.PROT_NONE)
	syscall.Mprotect(m[ps+n:], syscall.PROT_NONE)
	g := &Guard{m: m, ps: ps}
	g.Buf = m[ps+n-len(data) : ps+n : ps+n]
	copy(g.Buf, data)
	return g
}

func (g *Guard) data() []byte { return g.m[g.ps : len(g.m)-g.ps] }

// ReadOnly: any store into the payload faults.
func (g *Guard) ReadOnly() { syscall.Mprotect(g.data(), syscall.PROT_READ) }

// NoAccess: any load or store faults (a retained alias shows on first use).
func (g *Guard) NoAccess() { syscall.Mprotect(g.data(), syscall.PROT_NONE) }

func (g *Guard) ReadWrite() { syscall.Mprotect(g.data(), syscall.PROT_READ|syscall.PROT_WRITE) }

// Free unmaps the region. The caller must not use Buf afterwards.
func (g *Guard) Free() {
	if !g.dead {
		syscall.Munmap(g.m)
		g.dead = true
	}
}
